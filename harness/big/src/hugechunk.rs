//! Chunk sizes beyond 2^20 (the largest chunk the library ever chooses by itself) on inputs of several million
//! elements: out of reach for instrumented items, cheap for plain `usize` in a release build.
//!
//!   vbig hugechunk <property> <seed> <out.json>
//!
//! C01/C04/C03: results against std.  C05: every closure of the chain is called exactly once per element that reaches
//! it - observed as (count, sum of hashes, xor of hashes) of the arguments per stage, compared with the sequential
//! chain.  C11: the chunk size the runner resolved and handed to every worker (hooks) and the owner thread of every
//! aligned block of c positions.  C15: same result as with num_threads(1).

use orx_parallel::prelude::*;
use std::num::NonZeroUsize;
use std::sync::atomic::{AtomicU64, AtomicU8, Ordering::Relaxed};
use std::sync::Mutex;

fn h(x: usize) -> u64 {
    let mut x = x as u64 ^ 0x9e37_79b9_7f4a_7c15;
    x ^= x >> 30;
    x = x.wrapping_mul(0xbf58_476d_1ce4_e5b9);
    x ^= x >> 27;
    x = x.wrapping_mul(0x94d0_49bb_1331_11eb);
    x ^ (x >> 31)
}

#[derive(Default)]
struct Tally {
    n: AtomicU64,
    sum: AtomicU64,
    xor: AtomicU64,
}
impl Tally {
    fn see(&self, x: usize) {
        let v = h(x);
        self.n.fetch_add(1, Relaxed);
        self.sum.fetch_add(v, Relaxed);
        self.xor.fetch_xor(v, Relaxed);
    }
    fn get(&self) -> (u64, u64, u64) {
        (self.n.load(Relaxed), self.sum.load(Relaxed), self.xor.load(Relaxed))
    }
}

static RUNS: Mutex<Vec<(usize, bool)>> = Mutex::new(Vec::new());
static WORKER_CHUNKS: Mutex<Vec<usize>> = Mutex::new(Vec::new());

pub fn main(a: &[String]) {
    let prop = a.first().cloned().unwrap_or_else(|| "C01".into());
    let seed: u64 = a.get(1).and_then(|s| s.parse().ok()).unwrap_or(0);
    let out_path = a.get(2).cloned().unwrap_or_default();
    let mut cases: Vec<String> = vec![];
    let mut viol: Vec<String> = vec![];
    let t0 = std::time::Instant::now();

    orx_parallel::verif::set_hook(Some(std::sync::Arc::new(|e| match e {
        orx_parallel::verif::Event::RunBegin { chunk_size, exact, .. } => RUNS.lock().unwrap().push((chunk_size, exact)),
        orx_parallel::verif::Event::WorkerBegin { chunk_size } => WORKER_CHUNKS.lock().unwrap().push(chunk_size),
        _ => {}
    })));

    let big = 1usize << 20;
    let chunks = [big + 1, big + 4096 + (seed as usize % 97), 1_200_000, 3 * big / 2 + 1];
    let n = 3 * big + 500_000 + (seed as usize % 1000) * 3;
    for (ci, &c) in chunks.iter().enumerate() {
        let nt = [2usize, 3, 4, 16][(ci + seed as usize) % 4];
        for (kind, cs) in [("Exact", ChunkSize::Exact(NonZeroUsize::new(c).unwrap())), ("Min", ChunkSize::Min(NonZeroUsize::new(c).unwrap()))] {
            for src in ["range", "vec", "iter-unknown", "iter-exact"] {
                let label = format!("{} source, {} elements, {}({}) nt={}", src, n, kind, c, nt);
                RUNS.lock().unwrap().clear();
                WORKER_CHUNKS.lock().unwrap().clear();
                macro_rules! with_src {
                    ($body:ident) => {
                        match src {
                            "range" => $body!((0..n).into_par()),
                            "vec" => $body!((0..n).collect::<Vec<usize>>().into_par()),
                            "iter-unknown" => $body!((0..n).filter(|x| *x < usize::MAX).par()),
                            _ => $body!((0..n).map(|x| x).par()),
                        }
                    };
                }
                match prop.as_str() {
                    "C01" | "C15" => {
                        macro_rules! body {
                            ($p:expr) => {{
                                let got = $p.num_threads(nt).chunk_size(cs).map(|x| x + 1).filter(|x| x % 1009 == 3).collect_vec();
                                let exp: Vec<usize> = (0..n).map(|x| x + 1).filter(|x| x % 1009 == 3).collect();
                                if got != exp {
                                    viol.push(format!("{}: map.filter.collect_vec differs from the sequential result (len {} vs {})", label, got.len(), exp.len()));
                                }
                            }};
                        }
                        with_src!(body);
                        macro_rules! body2 {
                            ($p:expr) => {{
                                let got = $p.num_threads(nt).chunk_size(cs).filter_map(|x| if x % 1013 == 5 { Some(x * 2) } else { None }).collect_vec();
                                let exp: Vec<usize> = (0..n).filter_map(|x| if x % 1013 == 5 { Some(x * 2) } else { None }).collect();
                                if got != exp {
                                    viol.push(format!("{}: filter_map.collect_vec differs from the sequential result (len {} vs {})", label, got.len(), exp.len()));
                                }
                            }};
                        }
                        with_src!(body2);
                    }
                    "C04" => {
                        macro_rules! body {
                            ($p:expr) => {{
                                let got = $p.num_threads(nt).chunk_size(cs).filter(|x| x % 7 != 2).count();
                                let exp = (0..n).filter(|x| x % 7 != 2).count();
                                if got != exp {
                                    viol.push(format!("{}: filter.count returned {}, expected {}", label, got, exp));
                                }
                            }};
                        }
                        with_src!(body);
                    }
                    "C03" => {
                        macro_rules! body {
                            ($p:expr) => {{
                                let got = $p.num_threads(nt).chunk_size(cs).map(|x| h(x)).reduce(|a, b| a.wrapping_add(b));
                                let exp = (0..n).map(|x| h(x)).reduce(|a, b| a.wrapping_add(b));
                                if got != exp {
                                    viol.push(format!("{}: map.reduce(+) returned {:?}, expected {:?}", label, got, exp));
                                }
                            }};
                        }
                        with_src!(body);
                    }
                    "C05" => {
                        // per-stage tallies of closure arguments, parallel vs sequential
                        let (m, f) = (Tally::default(), Tally::default());
                        macro_rules! body {
                            ($p:expr) => {{
                                let out = $p
                                    .num_threads(nt)
                                    .chunk_size(cs)
                                    .map(|x| {
                                        m.see(x);
                                        x ^ 1
                                    })
                                    .filter(|x| {
                                        f.see(*x);
                                        x % 5 != 0
                                    })
                                    .collect_vec();
                                out.len()
                            }};
                        }
                        let got_len = with_src!(body);
                        let (sm, sf) = (Tally::default(), Tally::default());
                        let exp_len = (0..n)
                            .map(|x| {
                                sm.see(x);
                                x ^ 1
                            })
                            .filter(|x| {
                                sf.see(*x);
                                x % 5 != 0
                            })
                            .count();
                        if m.get() != sm.get() || f.get() != sf.get() {
                            viol.push(format!(
                                "{}: map.filter.collect_vec: closure call tallies (calls, sum, xor of argument hashes) differ from the sequential chain: map {:?} vs {:?}, filter {:?} vs {:?} (result len {} vs {})",
                                label,
                                m.get(),
                                sm.get(),
                                f.get(),
                                sf.get(),
                                got_len,
                                exp_len
                            ));
                        }
                    }
                    "C11" => {
                        if kind != "Exact" {
                            continue;
                        }
                        let owner: Vec<AtomicU8> = (0..n).map(|_| AtomicU8::new(0)).collect();
                        thread_local!(static ME: u8 = {
                            static NEXT: AtomicU8 = AtomicU8::new(1);
                            NEXT.fetch_add(1, Relaxed).max(1)
                        });
                        macro_rules! body {
                            ($p:expr) => {{
                                $p.num_threads(nt)
                                    .chunk_size(cs)
                                    .map(|x| {
                                        owner[x].store(ME.with(|m| *m), Relaxed);
                                        x
                                    })
                                    .count()
                            }};
                        }
                        let _ = with_src!(body);
                        for (cz, exact) in RUNS.lock().unwrap().iter() {
                            if !*exact || *cz != c {
                                viol.push(format!("{}: the runner resolved the chunk size to {}({})", label, if *exact { "Exact" } else { "Min" }, cz));
                            }
                        }
                        for cz in WORKER_CHUNKS.lock().unwrap().iter() {
                            if *cz != c {
                                viol.push(format!("{}: a worker was started with chunk size {}", label, cz));
                                break;
                            }
                        }
                        let mut b = 0;
                        while b * c < n {
                            let lo = b * c;
                            let hi = ((b + 1) * c).min(n);
                            let o = owner[lo].load(Relaxed);
                            if let Some(p) = (lo..hi).find(|&i| owner[i].load(Relaxed) != o) {
                                viol.push(format!("{}: positions {} and {} of aligned block {} were processed by different threads", label, lo, p, b));
                                break;
                            }
                            b += 1;
                        }
                    }
                    _ => {}
                }
                cases.push(label);
            }
        }
    }
    orx_parallel::verif::set_hook(None);
    let json = format!(
        "{{\"prop\":\"{}\",\"seed\":{},\"n\":{},\"cases\":[{}],\"violations\":[{}],\"wall_s\":{:.2}}}",
        prop,
        seed,
        n,
        cases.iter().map(|s| format!("{:?}", s)).collect::<Vec<_>>().join(","),
        viol.iter().take(40).map(|s| format!("{:?}", s)).collect::<Vec<_>>().join(","),
        t0.elapsed().as_secs_f64()
    );
    if out_path.is_empty() {
        println!("{}", json);
    } else {
        std::fs::write(out_path, json).expect("write");
    }
}
