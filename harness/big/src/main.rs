//! vbig: the "huge index" probe.  Source positions beyond 2^32 cannot be reached with instrumented items (4 * 10^9
//! closure calls), so this small release-mode program runs plain `usize` pipelines over `0..2^32 + k` with cheap,
//! very selective closures and compares with arithmetic.  It observes the same things as the main harness (ordered
//! collect, find with index, count, reduce), only without per-element instrumentation.
//!
//!   vbig <property> <seed> <out.json>

use orx_parallel::prelude::*;
use std::num::NonZeroUsize;

const BASE: usize = 1 << 32;

struct Out {
    cases: Vec<String>,
    violations: Vec<String>,
}

fn cfgs(seed: u64) -> Vec<(usize, ChunkSize, String)> {
    // (num_threads, chunk size): Auto, and two explicit ones
    let nts = [0usize, 2, 5, 16];
    let nt = nts[(seed % 4) as usize];
    vec![
        (nt, ChunkSize::Auto, format!("nt={} cs=Auto", nt)),
        (
            nts[((seed / 4) % 4) as usize],
            ChunkSize::Min(NonZeroUsize::new(1 << 16).unwrap()),
            format!("nt={} cs=Min(65536)", nts[((seed / 4) % 4) as usize]),
        ),
        (3, ChunkSize::Exact(NonZeroUsize::new((1 << 20) + 1).unwrap()), "nt=3 cs=Exact(2^20+1)".to_string()),
    ]
}

mod hugechunk;

fn main() {
    let a: Vec<String> = std::env::args().collect();
    if a.get(1).map(|s| s == "hugechunk").unwrap_or(false) {
        hugechunk::main(&a[2..]);
        return;
    }
    let prop = a.get(1).cloned().unwrap_or_else(|| "C01".into());
    let seed: u64 = a.get(2).and_then(|s| s.parse().ok()).unwrap_or(0);
    let out_path = a.get(3).cloned().unwrap_or_default();
    let ncfg: usize = a.get(4).and_then(|s| s.parse().ok()).unwrap_or(3);
    let n = BASE + (1 << 22) + (seed as usize % 1000) * 4099;
    let m: usize = (1 << 21) + 3 + (seed as usize % 7) * 2;
    let r: usize = 7 + (seed as usize % 11);
    let mut o = Out {
        cases: vec![],
        violations: vec![],
    };
    let expected: Vec<usize> = (0..n).skip(r).step_by(m).collect();
    let t0 = std::time::Instant::now();
    for (nt, cs, label) in cfgs(seed).into_iter().take(ncfg) {
        match prop.as_str() {
            "C01" => {
                let got = (0..n).into_par().num_threads(nt).chunk_size(cs).filter(|x| x % m == r).collect_vec();
                check_seq(&mut o, &format!("(0..{}).filter(x%{}=={}).collect_vec {}", n, m, r, label), &got, &expected);
                let got: Vec<usize> = (0..n)
                    .into_par()
                    .num_threads(nt)
                    .chunk_size(cs)
                    .map(|x| x ^ 1)
                    .filter(|x| (x ^ 1) % m == r)
                    .collect()
                    .into_iter()
                    .map(|x| x ^ 1)
                    .collect();
                check_seq(&mut o, &format!("(0..{}).map.filter.collect {}", n, label), &got, &expected);
                let got = (0..n)
                    .into_par()
                    .num_threads(nt)
                    .chunk_size(cs)
                    .filter_map(|x| if x % m == r { Some(x) } else { None })
                    .collect_vec();
                check_seq(&mut o, &format!("(0..{}).filter_map.collect_vec {}", n, label), &got, &expected);
                let got = (0..n)
                    .into_par()
                    .num_threads(nt)
                    .chunk_size(cs)
                    .flat_map(|x| if x % m == r { vec![x, x] } else { vec![] })
                    .collect_vec();
                let exp2: Vec<usize> = expected.iter().flat_map(|&x| [x, x]).collect();
                check_seq(&mut o, &format!("(0..{}).flat_map.collect_vec {}", n, label), &got, &exp2);
            }
            "C02" => {
                let target = *expected.last().unwrap();
                let first_beyond = *expected.iter().find(|&&x| x > BASE).unwrap();
                let got = (0..n).into_par().num_threads(nt).chunk_size(cs).find_with_index(|x| *x == target);
                if got != Some((target, target)) {
                    o.violations.push(format!("find_with_index(x=={}) {} returned {:?}", target, label, got));
                }
                o.cases.push(format!("find_with_index last match {}", label));
                let got = (0..n)
                    .into_par()
                    .num_threads(nt)
                    .chunk_size(cs)
                    .filter(|x| *x > BASE && x % m == r)
                    .first_with_index();
                if got != Some((first_beyond, first_beyond)) {
                    o.violations.push(format!("filter(x>2^32 && x%{}=={}).first_with_index {} returned {:?}, expected {}", m, r, label, got, first_beyond));
                }
                o.cases.push(format!("first_with_index beyond 2^32 {}", label));
                let got = (0..n).into_par().num_threads(nt).chunk_size(cs).filter_map(|x| if x > BASE && x % m == r { Some(x) } else { None }).first();
                if got != Some(first_beyond) {
                    o.violations.push(format!("filter_map.first {} returned {:?}, expected {}", label, got, first_beyond));
                }
                o.cases.push(format!("filter_map.first beyond 2^32 {}", label));
            }
            "C04" => {
                let got = (0..n).into_par().num_threads(nt).chunk_size(cs).filter(|x| x % 3 != 0).count();
                let exp = n - (n + 2) / 3;
                if got != exp {
                    o.violations.push(format!("(0..{}).filter(x%3!=0).count {} returned {}, expected {}", n, label, got, exp));
                }
                o.cases.push(format!("count over {} elements {}", n, label));
                let got = (0..n).into_par().num_threads(nt).chunk_size(cs).count();
                if got != n {
                    o.violations.push(format!("(0..{}).count {} returned {}", n, label, got));
                }
            }
            "C03" => {
                let got = (0..n).into_par().num_threads(nt).chunk_size(cs).filter(|x| x % m == r).reduce(|a, b| a.wrapping_add(b));
                let exp = expected.iter().copied().reduce(|a, b| a.wrapping_add(b));
                if got != exp {
                    o.violations.push(format!("(0..{}).filter.reduce(+) {} returned {:?}, expected {:?}", n, label, got, exp));
                }
                o.cases.push(format!("reduce over positions beyond 2^32 {}", label));
                let got = (0..n).into_par().num_threads(nt).chunk_size(cs).max();
                if got != Some(n - 1) {
                    o.violations.push(format!("(0..{}).max {} returned {:?}", n, label, got));
                }
            }
            _ => {}
        }
    }
    let json = format!(
        "{{\"prop\":\"{}\",\"seed\":{},\"n\":{},\"cases\":[{}],\"violations\":[{}],\"wall_s\":{:.2}}}",
        prop,
        seed,
        n,
        o.cases.iter().map(|s| format!("{:?}", s)).collect::<Vec<_>>().join(","),
        o.violations.iter().map(|s| format!("{:?}", s)).collect::<Vec<_>>().join(","),
        t0.elapsed().as_secs_f64()
    );
    if out_path.is_empty() {
        println!("{}", json);
    } else {
        std::fs::write(out_path, json).expect("write");
    }
}

fn check_seq(o: &mut Out, label: &str, got: &[usize], exp: &[usize]) {
    o.cases.push(label.to_string());
    if got != exp {
        let pos = got.iter().zip(exp.iter()).position(|(a, b)| a != b).unwrap_or(got.len().min(exp.len()));
        o.violations.push(format!(
            "{}: differs from the sequential result at position {} (len {} vs {}): got {:?}, expected {:?}",
            label,
            pos,
            got.len(),
            exp.len(),
            got.iter().skip(pos.saturating_sub(1)).take(4).collect::<Vec<_>>(),
            exp.iter().skip(pos.saturating_sub(1)).take(4).collect::<Vec<_>>()
        ));
    }
}
