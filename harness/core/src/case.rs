//! Case description (pure data), the PRNG, and the pure parts of the stage functions.

use crate::item::mix64;

#[derive(Clone, Debug)]
pub struct Rng(pub u64);
impl Rng {
    pub fn new(seed: u64) -> Rng {
        Rng(mix64(seed ^ 0x5851_f42d_4c95_7f2d) | 1)
    }
    pub fn next(&mut self) -> u64 {
        // splitmix64
        self.0 = self.0.wrapping_add(0x9e37_79b9_7f4a_7c15);
        mix64(self.0)
    }
    pub fn below(&mut self, n: u64) -> u64 {
        if n == 0 {
            0
        } else {
            self.next() % n
        }
    }
    pub fn range(&mut self, lo: usize, hi_incl: usize) -> usize {
        lo + self.below((hi_incl - lo + 1) as u64) as usize
    }
    pub fn chance(&mut self, num: u64, den: u64) -> bool {
        self.below(den) < num
    }
    pub fn pick<T: Copy>(&mut self, xs: &[T]) -> T {
        xs[self.below(xs.len() as u64) as usize]
    }
}

// stage codes used in event logs (chain stages use their index 0..=7)
pub const ST_LIFT: u8 = 20;
pub const ST_PRED: u8 = 21;
pub const ST_OP: u8 = 22;
pub const ST_BODY: u8 = 23;
pub const ST_KEY: u8 = 24;
pub const ST_CMP: u8 = 25;
pub const ST_IDENT: u8 = 26;
pub const NUM_STAGE_CODES: usize = 32;

pub fn stage_name(s: u8) -> String {
    match s {
        ST_LIFT => "lift".into(),
        ST_PRED => "predicate".into(),
        ST_OP => "reduce-operator".into(),
        ST_BODY => "for_each-body".into(),
        ST_KEY => "key-fn".into(),
        ST_CMP => "compare-fn".into(),
        ST_IDENT => "identity-fn".into(),
        x => format!("stage{}", x),
    }
}

#[derive(Clone, Copy, Debug, PartialEq, Eq, Hash)]
pub enum Kind {
    Map,
    Filter,
    FlatMap,
    FilterMapO,
    FilterMapR,
}

impl Kind {
    pub fn letter(self) -> char {
        match self {
            Kind::Map => 'M',
            Kind::Filter => 'F',
            Kind::FlatMap => 'X',
            Kind::FilterMapO => 'O',
            Kind::FilterMapR => 'R',
        }
    }
    pub fn from_letter(c: char) -> Kind {
        match c {
            'M' => Kind::Map,
            'F' => Kind::Filter,
            'X' => Kind::FlatMap,
            'O' => Kind::FilterMapO,
            'R' => Kind::FilterMapR,
            _ => panic!("bad kind letter"),
        }
    }
}

/// which elements a filter-like function keeps; decided on the origin position (id >> 12), the path bits and val
#[derive(Clone, Debug, PartialEq)]
pub enum Keep {
    All,
    Nothing,
    /// origin % m == r
    Residue { m: u64, r: u64 },
    /// origin % m != r
    NotResidue { m: u64, r: u64 },
    /// origin < k
    Prefix(u64),
    /// origin >= k
    Suffix(u64),
    /// hash(id, val, salt) % 256 < d
    Density { d: u64, salt: u64 },
    /// origin is one of these
    Origins(Vec<u64>),
    /// origin / block is even (whole blocks kept, whole blocks dropped)
    Blocks { block: u64, phase: u64 },
}

impl Keep {
    pub fn keeps(&self, id: u64, val: u32) -> bool {
        let o = id >> 12;
        match self {
            Keep::All => true,
            Keep::Nothing => false,
            Keep::Residue { m, r } => o % m == *r,
            Keep::NotResidue { m, r } => o % m != *r,
            Keep::Prefix(k) => o < *k,
            Keep::Suffix(k) => o >= *k,
            Keep::Density { d, salt } => mix64(id ^ ((val as u64) << 44) ^ salt) % 256 < *d,
            Keep::Origins(v) => v.contains(&o),
            Keep::Blocks { block, phase } => ((o / block) + phase) % 2 == 0,
        }
    }
}

#[derive(Clone, Debug, PartialEq)]
pub struct StageSpec {
    pub kind: Kind,
    pub salt: u32,
    pub keep: Keep,
    /// flat_map fan-out: number of outputs = fan_base + (hash % (fan_var+1)), capped at 3; may be 0
    pub fan_base: u8,
    pub fan_var: u8,
}

impl StageSpec {
    pub fn map_val(&self, val: u32) -> u32 {
        (mix64(val as u64 ^ ((self.salt as u64) << 20) ^ 0x77) % 64) as u32
    }
    pub fn fan(&self, id: u64, val: u32) -> u64 {
        // whole regions of the input may flat-map to nothing (keep is All unless the generator gates the fan-out)
        if !self.keep.keeps(id, val) {
            return 0;
        }
        let v = if self.fan_var == 0 {
            0
        } else {
            mix64(id ^ ((val as u64) << 32) ^ self.salt as u64) % (self.fan_var as u64 + 1)
        };
        (self.fan_base as u64 + v).min(3)
    }
    /// output id of the j-th element produced by a flat_map from `id`
    pub fn fan_id(id: u64, j: u64) -> u64 {
        let origin = id >> 12;
        let path = id & 0xfff;
        debug_assert!(path < (1 << 9), "too many flat_map levels");
        (origin << 12) | (path << 3) | (j + 1)
    }
}

#[derive(Clone, Copy, Debug, PartialEq, Eq, Hash)]
pub enum Src {
    /// owned Vec<Item>, into_par
    VecOwned,
    /// &Vec<Item>.par(): items are &Item
    Slice,
    /// (0..n).into_par().map(lift)
    Range,
    /// by-value iterator with exact size_hint
    IterExact,
    /// by-value iterator with unknown size_hint
    IterUnknown,
    /// VecDeque<Item>.into_par()
    Deque,
    /// &Vec<Item>.par().cloned(): owned clones of borrowed items
    Cloned,
    /// LinkedList<Item>.into_par()
    List,
    /// BTreeSet<Item>.into_par() (values are generated sorted so that set order = position order)
    BTree,
    /// &VecDeque<Item>.par(): items are &Item
    DequeRef,
    /// &[Item; 8].par(): items are &Item
    Array,
    /// Vec<Item>.into_con_iter().into_par()
    ConIterVec,
    /// (&[Item]).into_par(): items are &Item
    SliceInto,
}

impl Src {
    pub fn letter(self) -> char {
        match self {
            Src::VecOwned => 'V',
            Src::Slice => 'S',
            Src::Range => 'R',
            Src::IterExact => 'E',
            Src::IterUnknown => 'U',
            Src::Deque => 'D',
            Src::Cloned => 'C',
            Src::List => 'L',
            Src::BTree => 'B',
            Src::DequeRef => 'd',
            Src::Array => 'A',
            Src::ConIterVec => 'I',
            Src::SliceInto => 'W',
        }
    }
    pub fn from_letter(c: char) -> Src {
        match c {
            'V' => Src::VecOwned,
            'S' => Src::Slice,
            'R' => Src::Range,
            'E' => Src::IterExact,
            'U' => Src::IterUnknown,
            'D' => Src::Deque,
            'C' => Src::Cloned,
            'L' => Src::List,
            'B' => Src::BTree,
            'd' => Src::DequeRef,
            'A' => Src::Array,
            'I' => Src::ConIterVec,
            'W' => Src::SliceInto,
            _ => panic!("bad src letter"),
        }
    }
    pub fn is_probe(self) -> bool {
        matches!(self, Src::IterExact | Src::IterUnknown)
    }
    pub fn known_len(self) -> bool {
        !matches!(self, Src::IterUnknown)
    }
    pub fn owning(self) -> bool {
        !matches!(self, Src::Slice | Src::Range | Src::Cloned | Src::DequeRef | Src::Array | Src::SliceInto)
    }
    /// the monitor context owns the source items (sources that lend references)
    pub fn borrows_ctx_items(self) -> bool {
        matches!(self, Src::Slice | Src::Cloned | Src::DequeRef | Src::Array | Src::SliceInto)
    }
}

#[derive(Clone, Copy, Debug, PartialEq, Eq, Hash, PartialOrd, Ord)]
pub enum Term {
    CollectVec,
    Collect,
    IntoVec,
    IntoSplitD,
    IntoSplitL,
    IntoFixed,
    CollectX,
    Count,
    ForEach,
    Reduce,
    Fold,
    Sum,
    Min,
    Max,
    MinBy,
    MaxBy,
    MinByKey,
    MaxByKey,
    Find,
    First,
    Any,
    All,
    FindIdx,
    FirstIdx,
}

pub const ALL_TERMS: [Term; 24] = [
    Term::CollectVec,
    Term::Collect,
    Term::IntoVec,
    Term::IntoSplitD,
    Term::IntoSplitL,
    Term::IntoFixed,
    Term::CollectX,
    Term::Count,
    Term::ForEach,
    Term::Reduce,
    Term::Fold,
    Term::Sum,
    Term::Min,
    Term::Max,
    Term::MinBy,
    Term::MaxBy,
    Term::MinByKey,
    Term::MaxByKey,
    Term::Find,
    Term::First,
    Term::Any,
    Term::All,
    Term::FindIdx,
    Term::FirstIdx,
];

impl Term {
    pub fn is_ordered_collect(self) -> bool {
        matches!(
            self,
            Term::CollectVec | Term::Collect | Term::IntoVec | Term::IntoSplitD | Term::IntoSplitL | Term::IntoFixed
        )
    }
    pub fn is_collect_into(self) -> bool {
        matches!(self, Term::IntoVec | Term::IntoSplitD | Term::IntoSplitL | Term::IntoFixed)
    }
    pub fn is_reduce_family(self) -> bool {
        matches!(
            self,
            Term::Reduce
                | Term::Fold
                | Term::Sum
                | Term::Min
                | Term::Max
                | Term::MinBy
                | Term::MaxBy
                | Term::MinByKey
                | Term::MaxByKey
        )
    }
    pub fn is_select(self) -> bool {
        matches!(
            self,
            Term::Min | Term::Max | Term::MinBy | Term::MaxBy | Term::MinByKey | Term::MaxByKey
        )
    }
    pub fn is_short_circuit(self) -> bool {
        matches!(
            self,
            Term::Find | Term::First | Term::Any | Term::All | Term::FindIdx | Term::FirstIdx
        )
    }
    pub fn uses_pred(self) -> bool {
        matches!(self, Term::Find | Term::Any | Term::All | Term::FindIdx)
    }
    pub fn needs_index(self) -> bool {
        matches!(self, Term::FindIdx | Term::FirstIdx)
    }
    pub fn name(self) -> &'static str {
        match self {
            Term::CollectVec => "collect_vec",
            Term::Collect => "collect",
            Term::IntoVec => "collect_into(Vec)",
            Term::IntoSplitD => "collect_into(SplitVec<Doubling>)",
            Term::IntoSplitL => "collect_into(SplitVec<Linear>)",
            Term::IntoFixed => "collect_into(FixedVec)",
            Term::CollectX => "collect_x",
            Term::Count => "count",
            Term::ForEach => "for_each",
            Term::Reduce => "reduce",
            Term::Fold => "fold",
            Term::Sum => "sum",
            Term::Min => "min",
            Term::Max => "max",
            Term::MinBy => "min_by",
            Term::MaxBy => "max_by",
            Term::MinByKey => "min_by_key",
            Term::MaxByKey => "max_by_key",
            Term::Find => "find",
            Term::First => "first",
            Term::Any => "any",
            Term::All => "all",
            Term::FindIdx => "find_with_index",
            Term::FirstIdx => "first_with_index",
        }
    }
}

#[derive(Clone, Copy, Debug, PartialEq, Eq, Hash)]
pub enum Cs {
    Auto,
    Exact(usize),
    Min(usize),
}

#[derive(Clone, Copy, Debug, PartialEq, Eq, Hash)]
pub enum Mode {
    /// serialized under the deterministic scheduler
    S,
    /// free-running with noise
    F,
    /// sequential (num_threads(1))
    Q,
}

#[derive(Clone, Copy, Debug, PartialEq, Eq, Hash)]
pub enum Strategy {
    Uniform,
    Sticky,
    SpawnerFirst,
    SpawnerStarved,
    NewestFirst,
    OldestFirst,
    RoundRobin,
    Pct,
    NewestStarved,
    /// one early worker (the victim) runs until its k-th yield point and is then starved: it runs again only when
    /// nothing else can; the spawner runs only when no other worker can.  Produces runs in which a parked worker
    /// holds an early chunk while workers spawned after the lag period (with grown chunk sizes) overtake it.
    StarveOne,
    /// directed schedule for the runner's chunk growth: the spawner runs until the first lag period is over (four
    /// workers exist, none has pulled), then the workers run - one of them (the victim) is parked inside a closure
    /// holding an early element - until m steps are done, then the spawner decides again (workers spawned now get
    /// grown chunks with Min/Auto), then the newest workers run to completion, the victim last
    LagGrow,
    /// follow `Case::script` (indices into the ordered list of runnable threads), then never preempt:
    /// used by the bounded-exhaustive schedule exploration
    Script,
}

pub const ALL_STRATEGIES: [Strategy; 11] = [
    Strategy::LagGrow,
    Strategy::StarveOne,
    Strategy::Uniform,
    Strategy::Sticky,
    Strategy::SpawnerFirst,
    Strategy::SpawnerStarved,
    Strategy::NewestFirst,
    Strategy::OldestFirst,
    Strategy::RoundRobin,
    Strategy::Pct,
    Strategy::NewestStarved,
];

#[derive(Clone, Debug, PartialEq)]
pub enum Trigger {
    /// panic when the stage is called with this argument id
    OnId(u64),
    /// panic at the k-th call (0-based) of the stage, whatever the argument
    OnCall(u64),
}

#[derive(Clone, Debug, PartialEq)]
pub struct Fault {
    pub stage: u8,
    pub trigger: Trigger,
}

#[derive(Clone, Copy, Debug, PartialEq)]
pub enum Setter {
    Nt(usize),
    Cs(Cs),
    /// num_threads given as NumThreads::Auto / chunk_size as ChunkSize::Auto explicitly
    NtAuto,
    CsAuto,
    /// usize::into() conversions
    NtFrom(usize),
    CsFrom(usize),
}

#[derive(Clone, Debug)]
pub struct Case {
    pub seed: u64,
    pub src: Src,
    pub len: usize,
    pub shape: String,
    pub stages: Vec<StageSpec>,
    pub term: Term,
    pub pred: Keep,
    /// 0 = leave unset (Auto); n>0 = Max(n)
    pub nt: usize,
    pub cs: Cs,
    /// whether params are applied on the source at all (false = library defaults)
    pub set_params: bool,
    /// extra setter calls: (position in chain 0..=depth, setter); position p = after p transformations
    pub setters: Vec<(usize, Setter)>,
    pub pre_len: usize,
    pub pre_spare: usize,
    /// by/by_key terminals compare on val only (ties between distinct ids)
    pub ties: bool,
    pub linear_k: usize,
    pub mode: Mode,
    pub strategy: Strategy,
    pub sched_seed: u64,
    /// scripted scheduler decisions (Strategy::Script)
    pub script: Vec<u8>,
    pub faults: Vec<Fault>,
    /// endless source (Probe only) with an element budget
    pub endless: bool,
    pub budget: usize,
    pub noise: u8,
    /// keep exact id multisets in reduce aggregates
    pub val_seed: u64,
    /// spin inside Probe::next to widen the re-entrancy window (mode F)
    pub probe_spin: u32,
    /// occasional sleep (microseconds, upper bound) inside Probe::next in mode F: a thread that holds the source's
    /// hand-over handle is slow, others have reserved positions and wait
    pub probe_sleep_us: u32,
    /// Src::ConIterVec only: number of elements taken from the concurrent iterator before it is turned into a Par
    pub pre_consumed: usize,
    /// operating-system fault: while the computation runs, the address-space limit of the process is lowered so that no
    /// thread stack can be mapped - every attempt to create a worker thread fails
    pub spawn_fail: bool,
}

impl Case {
    pub fn val_at(&self, pos: u64) -> u32 {
        if self.src == Src::BTree {
            // non-decreasing with duplicates: the set's order (val, id) is then the position order
            return (pos / 3) as u32;
        }
        (mix64(pos ^ self.val_seed.rotate_left(13)) % 16) as u32
    }
    pub fn depth(&self) -> usize {
        self.stages.len()
    }
    pub fn describe(&self) -> String {
        format!(
            "src={} len={} shape=[{}] term={} nt={} cs={:?} mode={:?} strat={:?} pre={} faults={} endless={} seed={:#x}",
            self.src.letter(),
            self.len,
            self.shape,
            self.term.name(),
            self.nt,
            self.cs,
            self.mode,
            self.strategy,
            self.pre_len,
            self.faults.len(),
            self.endless,
            self.seed
        )
    }
}

/// JSON string escaping (the harness writes JSON by hand to stay dependency-free)
pub fn jstr(s: &str) -> String {
    let mut o = String::with_capacity(s.len() + 2);
    o.push('"');
    for c in s.chars() {
        match c {
            '"' => o.push_str("\\\""),
            '\\' => o.push_str("\\\\"),
            '\n' => o.push_str("\\n"),
            '\t' => o.push_str("\\t"),
            c if (c as u32) < 0x20 => o.push_str(&format!("\\u{:04x}", c as u32)),
            c => o.push(c),
        }
    }
    o.push('"');
    o
}
