//! Per-case monitor context: per-thread event logs, gauges, fault injection, noise, and the bridge from the
//! library's verif hooks to the deterministic scheduler.

use crate::case::*;
use crate::item::Item;
use crate::sched::Sched;
use std::cell::{Cell, UnsafeCell};
use std::sync::atomic::{AtomicBool, AtomicI64, AtomicPtr, AtomicU64, AtomicUsize, Ordering::*};
use std::sync::Mutex;

pub const K_CALL: u8 = 1;
pub const K_RET: u8 = 2;
pub const K_PULL: u8 = 3;
pub const K_WBEGIN: u8 = 4;
pub const K_WEND: u8 = 5;
pub const K_RUNBEGIN: u8 = 6;
pub const K_SPAWNER: u8 = 7;
pub const K_RUNEND: u8 = 8;

pub const PULL_END: u64 = u64::MAX;

#[derive(Clone, Copy, Debug)]
pub struct Ev {
    pub seq: u64,
    pub kind: u8,
    pub stage: u8,
    pub a: u64,
    pub b: u64,
}

pub const MAX_SLOTS: usize = 160;

pub struct Slot {
    pub events: UnsafeCell<Vec<Ev>>,
    pub tkey: UnsafeCell<u64>,
    pub rng: UnsafeCell<u64>,
}

#[derive(Clone, Copy, Debug, Default)]
pub struct RunInfo {
    pub max_num_threads: usize,
    pub chunk_size: usize,
    pub exact: bool,
    pub input_len: Option<usize>,
}

#[derive(Clone, Debug)]
pub struct StepObs {
    pub step: usize,
    pub label: &'static str,
    pub nt: orx_parallel::NumThreads,
    pub cs: orx_parallel::ChunkSize,
    pub is_seq: bool,
    /// closure calls and source pulls observed so far (must be 0 before the terminal for a lazy computation)
    pub calls: u64,
    pub pulls: u64,
    pub foreign_thread_calls: u64,
}

pub struct Ctx {
    pub case: Case,
    pub epoch: u64,
    slots: Box<[Slot]>,
    next_slot: AtomicUsize,
    seq: AtomicU64,
    pub active: AtomicI64,
    pub max_active: AtomicI64,
    pub live_workers: AtomicI64,
    pub max_live_workers: AtomicI64,
    pub worker_begins: AtomicU64,
    pub probe_busy: AtomicBool,
    pub probe_reentry: AtomicU64,
    pub calls: [AtomicU64; NUM_STAGE_CODES],
    pub total_calls: AtomicU64,
    pub pulls: AtomicU64,
    pub foreign_calls: AtomicU64,
    pub sched: Option<Sched>,
    pub runs: Mutex<Vec<RunInfo>>,
    pub steps: Mutex<Vec<StepObs>>,
    pub caller_tkey: u64,
    pub src_items: Vec<Item>,
    pub src_deque: std::collections::VecDeque<Item>,
    pub pre_items: Vec<Item>,
    pub identity_item: Item,
    pub slot_overflow: AtomicBool,
    pub budget_exhausted: AtomicBool,
    pub in_terminal: AtomicBool,
    pub injected: AtomicU64,
}

unsafe impl Sync for Ctx {}

static EPOCH: AtomicU64 = AtomicU64::new(1);
static TKEYS: AtomicU64 = AtomicU64::new(1);
static CUR: AtomicPtr<Ctx> = AtomicPtr::new(std::ptr::null_mut());

thread_local! {
    static TKEY: Cell<u64> = const { Cell::new(0) };
    static MY_SLOT: Cell<(u64, usize)> = const { Cell::new((0, 0)) };
}

pub fn tkey() -> u64 {
    TKEY.with(|k| {
        if k.get() == 0 {
            k.set(TKEYS.fetch_add(1, Relaxed));
        }
        k.get()
    })
}

pub const INJECTED_MSG: &str = "vh-injected-fault";

/// a non-string panic payload
#[derive(Debug)]
pub struct InjectedFault {
    pub stage: u8,
    pub id: u64,
}

impl Ctx {
    pub fn new(case: Case) -> Box<Ctx> {
        let epoch = EPOCH.fetch_add(1, Relaxed);
        let slots: Vec<Slot> = (0..MAX_SLOTS)
            .map(|_| Slot {
                events: UnsafeCell::new(Vec::new()),
                tkey: UnsafeCell::new(0),
                rng: UnsafeCell::new(0),
            })
            .collect();
        let sched = match case.mode {
            Mode::S if case.strategy == Strategy::Script => Some(Sched::with_script(case.script.clone())),
            Mode::S => Some(Sched::new(case.strategy, case.sched_seed)),
            _ => None,
        };
        let src_items: Vec<Item> = if case.src.borrows_ctx_items() && case.src != Src::DequeRef {
            (0..case.len as u64).map(|p| Item::new(p << 12, case.val_at(p))).collect()
        } else {
            vec![]
        };
        let src_deque: std::collections::VecDeque<Item> = if case.src == Src::DequeRef {
            // make the ring buffer wrap around, so that the deque is not one contiguous slice
            let mut d = std::collections::VecDeque::with_capacity(case.len + 3);
            let k = case.len / 3;
            for p in (0..k as u64).rev() {
                d.push_front(Item::new(p << 12, case.val_at(p)));
            }
            for p in k as u64..case.len as u64 {
                d.push_back(Item::new(p << 12, case.val_at(p)));
            }
            d
        } else {
            Default::default()
        };
        let pre_items = if case.src.borrows_ctx_items() {
            (0..case.pre_len as u64)
                .map(|k| Item::new(PRE_BASE_ID + k, (k % 7) as u32))
                .collect()
        } else {
            vec![]
        };
        let ctx = Box::new(Ctx {
            case,
            epoch,
            slots: slots.into_boxed_slice(),
            next_slot: AtomicUsize::new(0),
            seq: AtomicU64::new(1),
            active: AtomicI64::new(0),
            max_active: AtomicI64::new(0),
            live_workers: AtomicI64::new(0),
            max_live_workers: AtomicI64::new(0),
            worker_begins: AtomicU64::new(0),
            probe_busy: AtomicBool::new(false),
            probe_reentry: AtomicU64::new(0),
            calls: [const { AtomicU64::new(0) }; NUM_STAGE_CODES],
            total_calls: AtomicU64::new(0),
            pulls: AtomicU64::new(0),
            foreign_calls: AtomicU64::new(0),
            sched,
            runs: Mutex::new(vec![]),
            steps: Mutex::new(vec![]),
            caller_tkey: tkey(),
            src_items,
            src_deque,
            pre_items,
            identity_item: Item::identity(),
            slot_overflow: AtomicBool::new(false),
            budget_exhausted: AtomicBool::new(false),
            in_terminal: AtomicBool::new(false),
            injected: AtomicU64::new(0),
        });
        // the caller claims slot 0
        let s = ctx.my_slot();
        debug_assert_eq!(s, 0);
        ctx
    }

    pub fn begin_terminal(&self) {
        self.in_terminal.store(true, Relaxed);
    }

    /// makes this context the target of the library hooks
    pub fn install(&self) {
        CUR.store(self as *const Ctx as *mut Ctx, Release);
    }
    pub fn uninstall(&self) {
        CUR.store(std::ptr::null_mut(), Release);
    }

    fn my_slot(&self) -> usize {
        MY_SLOT.with(|c| {
            let (e, s) = c.get();
            if e == self.epoch {
                return s;
            }
            let mut s = self.next_slot.fetch_add(1, Relaxed);
            if s >= MAX_SLOTS {
                self.slot_overflow.store(true, Relaxed);
                s = MAX_SLOTS - 1;
            }
            unsafe {
                *self.slots[s].tkey.get() = tkey();
                *self.slots[s].rng.get() = crate::item::mix64(self.case.seed ^ (s as u64 + 1) * 0x9e37) | 1;
            }
            c.set((self.epoch, s));
            s
        })
    }

    #[inline]
    fn log(&self, slot: usize, kind: u8, stage: u8, a: u64, b: u64) {
        let seq = self.seq.fetch_add(1, Relaxed);
        unsafe { (*self.slots[slot].events.get()).push(Ev { seq, kind, stage, a, b }) };
    }

    pub fn log_here(&self, kind: u8, stage: u8, a: u64, b: u64) {
        let s = self.my_slot();
        self.log(s, kind, stage, a, b);
    }

    fn rnd(&self, slot: usize) -> u64 {
        unsafe {
            let r = &mut *self.slots[slot].rng.get();
            let mut x = *r;
            x ^= x << 13;
            x ^= x >> 7;
            x ^= x << 17;
            *r = x;
            x
        }
    }

    fn noise(&self, slot: usize) {
        match self.case.noise {
            0 | 3 => {}
            1 => {
                if self.rnd(slot) % 8 == 0 {
                    std::thread::yield_now();
                }
            }
            _ => {
                let r = self.rnd(slot);
                match r % 16 {
                    0 => std::thread::sleep(std::time::Duration::from_micros(1 + (r >> 8) % 200)),
                    1..=3 => {
                        for _ in 0..((r >> 8) % 2000) {
                            std::hint::spin_loop();
                        }
                    }
                    4..=7 => std::thread::yield_now(),
                    _ => {}
                }
            }
        }
    }

    /// entry of an instrumented closure: log, gauge, yield point / noise, fault injection
    pub fn enter(&self, stage: u8, a: u64, b: u64) {
        let slot = self.my_slot();
        self.log(slot, K_CALL, stage, a, b);
        let act = self.active.fetch_add(1, Relaxed) + 1;
        self.max_active.fetch_max(act, Relaxed);
        let k = self.calls[stage as usize % NUM_STAGE_CODES].fetch_add(1, Relaxed);
        self.total_calls.fetch_add(1, Relaxed);
        if tkey() != self.caller_tkey {
            self.foreign_calls.fetch_add(1, Relaxed);
        }
        match self.case.mode {
            Mode::S => {
                if let Some(s) = &self.sched {
                    s.yield_point(tkey());
                }
            }
            Mode::F => self.noise(slot),
            Mode::Q => {}
        }
        if !self.case.faults.is_empty() {
            for f in &self.case.faults {
                if f.stage == stage {
                    let hit = match f.trigger {
                        Trigger::OnId(id) => id == a,
                        Trigger::OnCall(n) => n == k,
                    };
                    if hit {
                        self.active.fetch_sub(1, Relaxed);
                        self.injected.fetch_add(1, Relaxed);
                        self.log(slot, K_RET, stage, a, u64::MAX - 7);
                        // vary the payload type: a library must not depend on the panic payload being a string
                        match (self.case.seed >> 7) % 4 {
                            0 => std::panic::panic_any(INJECTED_MSG),
                            1 => panic!("{} at {:#x}", INJECTED_MSG, a),
                            2 => std::panic::panic_any(InjectedFault { stage, id: a }),
                            _ => std::panic::panic_any(Box::new(0x5eed_u64)),
                        }
                    }
                }
            }
        }
    }

    pub fn exit(&self, stage: u8, a: u64, outcome: u64) {
        let slot = self.my_slot();
        self.log(slot, K_RET, stage, a, outcome);
        self.active.fetch_sub(1, Relaxed);
    }

    pub fn record_step(&self, step: usize, label: &'static str, p: orx_parallel::Params) {
        let mut g = self.steps.lock().unwrap_or_else(|e| e.into_inner());
        g.push(StepObs {
            step,
            label,
            nt: p.num_threads,
            cs: p.chunk_size,
            is_seq: p.is_sequential(),
            calls: self.total_calls.load(Relaxed),
            pulls: self.pulls.load(Relaxed),
            foreign_thread_calls: self.foreign_calls.load(Relaxed),
        });
    }

    /// all events of all threads: (slot, tkey, events), to be called after the computation is over
    pub fn collect_events(&self) -> Vec<(usize, u64, Vec<Ev>)> {
        let n = self.next_slot.load(Relaxed).min(MAX_SLOTS);
        (0..n)
            .map(|s| unsafe { (s, *self.slots[s].tkey.get(), (*self.slots[s].events.get()).clone()) })
            .collect()
    }

    // ---- hooks

    fn on_hook(&self, ev: orx_parallel::verif::Event) {
        use orx_parallel::verif::Event as E;
        let slot = self.my_slot();
        match ev {
            E::RunBegin {
                max_num_threads,
                chunk_size,
                exact,
                input_len,
            } => {
                self.log(slot, K_RUNBEGIN, exact as u8, max_num_threads as u64, chunk_size as u64);
                self.runs
                    .lock()
                    .unwrap_or_else(|e| e.into_inner())
                    .push(RunInfo {
                        max_num_threads,
                        chunk_size,
                        exact,
                        input_len,
                    });
                if let Some(s) = &self.sched {
                    s.begin_run(tkey());
                }
            }
            E::BeforeSpawnDecision { num_spawned } => {
                self.log(slot, K_SPAWNER, 0, num_spawned as u64, 0);
                self.spawner_point(slot, num_spawned);
            }
            E::AfterLag { num_spawned } => {
                self.log(slot, K_SPAWNER, 1, num_spawned as u64, 0);
                self.spawner_point(slot, num_spawned);
            }
            E::BeforeFinalSpawn { num_spawned } => {
                self.log(slot, K_SPAWNER, 2, num_spawned as u64, 0);
                self.spawner_point(slot, num_spawned);
            }
            E::SpawnerWaits { num_spawned } => {
                self.log(slot, K_SPAWNER, 3, num_spawned as u64, 0);
                if let Some(s) = &self.sched {
                    s.spawner_done(num_spawned);
                }
            }
            E::WorkerBegin { chunk_size } => {
                self.log(slot, K_WBEGIN, 0, chunk_size as u64, 0);
                self.worker_begins.fetch_add(1, Relaxed);
                let l = self.live_workers.fetch_add(1, Relaxed) + 1;
                self.max_live_workers.fetch_max(l, Relaxed);
                match self.case.mode {
                    Mode::S => {
                        if let Some(s) = &self.sched {
                            s.worker_begin(tkey());
                        }
                    }
                    Mode::F => {
                        // delay before the first pull, so that later-spawned workers can get earlier chunks
                        if self.case.noise >= 3 {
                            // the first worker runs alone for a long while
                            if self.worker_begins.load(Relaxed) > 1 {
                                std::thread::sleep(std::time::Duration::from_millis(60));
                            }
                        } else if self.case.noise >= 2 {
                            let r = self.rnd(slot);
                            match r % 4 {
                                0 => std::thread::sleep(std::time::Duration::from_micros(
                                    (r >> 8) % 400,
                                )),
                                1 => std::thread::yield_now(),
                                _ => {}
                            }
                        } else {
                            self.noise(slot);
                        }
                    }
                    Mode::Q => {}
                }
            }
            E::WorkerEnd => {
                self.log(slot, K_WEND, 0, 0, 0);
                self.live_workers.fetch_sub(1, Relaxed);
                if let Some(s) = &self.sched {
                    s.worker_end(tkey());
                }
            }
            E::RunEnd { panicking } => {
                self.log(slot, K_RUNEND, panicking as u8, 0, 0);
                if let Some(s) = &self.sched {
                    s.end_run();
                }
            }
        }
    }

    fn spawner_point(&self, slot: usize, num_spawned: usize) {
        match self.case.mode {
            Mode::S => {
                if let Some(s) = &self.sched {
                    s.spawner_point(num_spawned);
                }
            }
            Mode::F => {
                if self.case.noise >= 2 {
                    let r = self.rnd(slot);
                    if r % 3 == 0 {
                        std::thread::sleep(std::time::Duration::from_micros((r >> 8) % 300));
                    }
                } else {
                    self.noise(slot);
                }
            }
            Mode::Q => {}
        }
    }
}

pub const PRE_BASE_ID: u64 = crate::item::PRE_BASE;

fn global_hook(ev: orx_parallel::verif::Event) {
    let p = CUR.load(Acquire);
    if !p.is_null() {
        unsafe { (*p).on_hook(ev) };
    }
}

/// install the process-global library hook (once)
pub fn install_library_hook() {
    orx_parallel::verif::set_hook(Some(std::sync::Arc::new(global_hook)));
}

pub fn remove_library_hook() {
    orx_parallel::verif::set_hook(None);
}
