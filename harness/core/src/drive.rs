//! Runs one terminal on a built pipeline and normalises what it returned.

use crate::case::*;
use crate::ctx::Ctx;
use crate::item::{Agg, Item};
use crate::stage::*;
use orx_parallel::prelude::*;

#[derive(Clone, Debug, PartialEq)]
pub enum Obs {
    /// ordered collection: (id, val) of every element, pre-existing contents included
    Seq(Vec<(u64, u32)>),
    /// unordered collection
    Bag(Vec<(u64, u32)>),
    Count(usize),
    Unit,
    Bool(bool),
    Opt(Option<(u64, u32)>),
    OptIdx(Option<(usize, u64, u32)>),
    /// reduce family on owned items: the aggregate (None if the terminal returned None)
    Agg(Option<Agg>),
    Unsupported,
}

fn tup<'a, T: Elem<'a>>(x: &T) -> (u64, u32) {
    let it = x.it();
    if !it.canary_ok() || !it.heap_ok() {
        // a corrupted element reached the caller
        return (u64::MAX, u32::MAX);
    }
    (it.id, it.val)
}

fn seq_of<'a, T: Elem<'a>>(c: impl IntoIterator<Item = T>) -> Vec<(u64, u32)> {
    c.into_iter().map(|x| tup(&x)).collect()
}

fn sel<'a, T: Elem<'a>>(x: Option<T>) -> Obs {
    if T::OWNED {
        // a selected element is an ordinary item; an aggregate if produced by op
        match x {
            None => Obs::Agg(None),
            Some(x) => {
                let it = x.it();
                if !it.canary_ok() || !it.heap_ok() {
                    return Obs::Opt(Some((u64::MAX, u32::MAX)));
                }
                if it.id == crate::item::ID_AGG || it.id == crate::item::ID_IDENTITY {
                    Obs::Agg(Some(it.agg_view()))
                } else {
                    Obs::Opt(Some((it.id, it.val)))
                }
            }
        }
    } else {
        Obs::Opt(x.map(|x| tup(&x)))
    }
}

pub fn apply_setters<P: Par>(mut p: P, ctx: &Ctx, pos: usize) -> P {
    use std::num::NonZeroUsize;
    for (at, s) in &ctx.case.setters {
        if *at != pos {
            continue;
        }
        p = match *s {
            Setter::Nt(n) => p.num_threads(NumThreads::Max(NonZeroUsize::new(n.max(1)).unwrap())),
            Setter::NtAuto => p.num_threads(NumThreads::Auto),
            Setter::NtFrom(n) => p.num_threads(n),
            Setter::Cs(Cs::Auto) | Setter::CsAuto => p.chunk_size(ChunkSize::Auto),
            Setter::Cs(Cs::Exact(c)) => p.chunk_size(ChunkSize::Exact(NonZeroUsize::new(c.max(1)).unwrap())),
            Setter::Cs(Cs::Min(c)) => p.chunk_size(ChunkSize::Min(NonZeroUsize::new(c.max(1)).unwrap())),
            Setter::CsFrom(c) => p.chunk_size(c),
        };
    }
    p
}

/// parameters "set on the source"
pub fn apply_source_params<P: Par>(mut p: P, ctx: &Ctx) -> P {
    use std::num::NonZeroUsize;
    let c = &ctx.case;
    if !c.set_params {
        return p;
    }
    let nt = if c.mode == Mode::Q { 1 } else { c.nt };
    if nt > 0 {
        p = p.num_threads(nt);
    } else {
        p = p.num_threads(NumThreads::Auto);
    }
    p = match c.cs {
        Cs::Auto => p.chunk_size(ChunkSize::Auto),
        Cs::Exact(x) => p.chunk_size(x.max(1)),
        Cs::Min(x) => p.chunk_size(ChunkSize::Min(NonZeroUsize::new(x.max(1)).unwrap())),
    };
    p
}

pub fn drive<'a, T: Elem<'a>, P: Par<Item = T>>(p: P, ctx: &'a Ctx, term: Term) -> Obs {
    let c = &ctx.case;
    match term {
        Term::CollectVec => Obs::Seq(seq_of(p.collect_vec())),
        Term::Collect => Obs::Seq(seq_of(p.collect())),
        Term::IntoVec => {
            let mut target: Vec<T> = Vec::with_capacity(c.pre_len + c.pre_spare);
            target.extend(T::pre(ctx, c.pre_len));
            Obs::Seq(seq_of(p.collect_into(target)))
        }
        Term::IntoSplitD => {
            let mut target: SplitVec<T, Doubling> = SplitVec::with_doubling_growth();
            for x in T::pre(ctx, c.pre_len) {
                target.push(x);
            }
            Obs::Seq(seq_of(p.collect_into(target)))
        }
        Term::IntoSplitL => {
            let mut target: SplitVec<T, Linear> = SplitVec::with_linear_growth(c.linear_k.max(1));
            for x in T::pre(ctx, c.pre_len) {
                target.push(x);
            }
            Obs::Seq(seq_of(p.collect_into(target)))
        }
        Term::IntoFixed => {
            let mut v: Vec<T> = Vec::with_capacity(c.pre_len + c.pre_spare);
            v.extend(T::pre(ctx, c.pre_len));
            let target: FixedVec<T> = FixedVec::from(v);
            Obs::Seq(seq_of(p.collect_into(target)))
        }
        Term::CollectX => Obs::Bag(seq_of(p.collect_x())),
        Term::Count => Obs::Count(p.count()),
        Term::ForEach => {
            p.for_each(mk_body::<T>(ctx));
            Obs::Unit
        }
        Term::Reduce => sel(p.reduce(mk_op::<T>(ctx))),
        Term::Fold => {
            let ident = move || {
                ctx.enter(ST_IDENT, 0, 0);
                ctx.exit(ST_IDENT, 0, 0);
                T::identity(ctx)
            };
            sel(Some(p.fold(ident, mk_op::<T>(ctx))))
        }
        Term::Sum => match T::sum(p) {
            Some(x) => sel(Some(x)),
            None => Obs::Unsupported,
        },
        Term::Min => sel(p.min()),
        Term::Max => sel(p.max()),
        Term::MinBy => sel(p.min_by(mk_cmp::<T>(ctx, c.ties))),
        Term::MaxBy => sel(p.max_by(mk_cmp::<T>(ctx, c.ties))),
        Term::MinByKey => {
            if c.ties {
                sel(p.min_by_key(mk_key_ties::<T>(ctx)))
            } else {
                sel(p.min_by_key(mk_key::<T>(ctx)))
            }
        }
        Term::MaxByKey => {
            if c.ties {
                sel(p.max_by_key(mk_key_ties::<T>(ctx)))
            } else {
                sel(p.max_by_key(mk_key::<T>(ctx)))
            }
        }
        Term::Find => Obs::Opt(p.find(mk_pred::<T>(ctx)).map(|x| tup(&x))),
        Term::First => Obs::Opt(p.first().map(|x| tup(&x))),
        Term::Any => Obs::Bool(p.any(mk_pred::<T>(ctx))),
        Term::All => Obs::Bool(p.all(mk_pred::<T>(ctx))),
        Term::FindIdx | Term::FirstIdx => Obs::Unsupported,
    }
}

pub fn idx_obs<'a, T: Elem<'a>>(r: Option<(usize, T)>) -> Obs {
    Obs::OptIdx(r.map(|(i, x)| {
        let t = tup(&x);
        (i, t.0, t.1)
    }))
}

#[allow(dead_code)]
pub fn _unused(_: &Item) {}
