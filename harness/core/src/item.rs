//! The element type that flows through every pipeline under test, and the global drop monitor.
//!
//! * `id` carries lineage: `id >> 12` is the source position the element descends from, the low 12 bits
//!   are the path through flat_map stages (3 bits per stage, output index + 1).  Ids are unique among
//!   the inputs of any one stage, so a call log entry `(stage, id)` identifies one logical call.
//! * `val` is a small payload with duplicates; maps scramble it.
//! * every Item owns heap memory (`heap`), so that a double drop or a drop of garbage is a memory error
//!   a sanitizer can see, not only a monitor event.
//! * every Item gets a `serial` from a per-case counter; the drop table is indexed by serial (never by
//!   address, so it cannot hide a leak from a leak checker).

use std::sync::atomic::{AtomicBool, AtomicU32, AtomicU64, AtomicU8, Ordering::Relaxed};

const MAGIC: u64 = 0xC0FF_EED0_0DF0_0D51;
const POISON: u64 = 0xDEAD_DEAD_DEAD_DEAD;

#[cfg(not(feature = "small-tables"))]
pub const TAB_CAP: usize = 1 << 21;
#[cfg(feature = "small-tables")]
pub const TAB_CAP: usize = 4096;

const UNBORN: u8 = 0;
const LIVE: u8 = 1;
const DROPPED: u8 = 2;

static TAB: [AtomicU8; TAB_CAP] = [const { AtomicU8::new(0) }; TAB_CAP];
static NEXT: AtomicU32 = AtomicU32::new(0);
static DOUBLE: AtomicU64 = AtomicU64::new(0);
static GARBAGE: AtomicU64 = AtomicU64::new(0);
static OVERFLOW: AtomicU64 = AtomicU64::new(0);
static FIRST_BAD: AtomicU64 = AtomicU64::new(u64::MAX);
static QUIET: AtomicBool = AtomicBool::new(false);

pub const UNTRACKED: u32 = u32::MAX;
pub const ID_IDENTITY: u64 = u64::MAX - 1;
pub const ID_AGG: u64 = u64::MAX - 2;
pub const PRE_BASE: u64 = 1 << 50;

#[derive(Clone, Debug, Default, PartialEq, Eq)]
pub struct Agg {
    pub count: u64,
    pub sum: u64,
    pub xor: u64,
    /// exact multiset of contributing ids (kept only while small)
    pub ids: Vec<u64>,
    pub ids_exact: bool,
    /// hash of the parenthesised term (non-commutative, non-associative)
    pub term: u64,
    pub identities: u64,
}

pub fn mix64(mut x: u64) -> u64 {
    x ^= x >> 30;
    x = x.wrapping_mul(0xbf58_476d_1ce4_e5b9);
    x ^= x >> 27;
    x = x.wrapping_mul(0x94d0_49bb_1331_11eb);
    x ^= x >> 31;
    x
}

pub fn leaf_term(id: u64, val: u32) -> u64 {
    mix64(id ^ ((val as u64) << 40) ^ 0x1234_5678_9abc_def0)
}

pub fn node_term(a: u64, b: u64) -> u64 {
    mix64(a.wrapping_mul(3).wrapping_add(0x9e37_79b9_7f4a_7c15) ^ mix64(b).rotate_left(17))
}

pub const IDS_EXACT_LIMIT: usize = 4096;

impl Agg {
    pub fn leaf(id: u64, val: u32) -> Agg {
        Agg {
            count: 1,
            sum: mix64(id),
            xor: mix64(id ^ 0x55),
            ids: vec![id],
            ids_exact: true,
            term: leaf_term(id, val),
            identities: 0,
        }
    }
    pub fn identity() -> Agg {
        Agg {
            count: 0,
            sum: 0,
            xor: 0,
            ids: vec![],
            ids_exact: true,
            term: 0x1d1d_1d1d,
            identities: 1,
        }
    }
    pub fn union(a: &Agg, b: &Agg) -> Agg {
        let exact = a.ids_exact && b.ids_exact && a.ids.len() + b.ids.len() <= IDS_EXACT_LIMIT;
        let mut ids = vec![];
        if exact {
            ids.reserve(a.ids.len() + b.ids.len());
            ids.extend_from_slice(&a.ids);
            ids.extend_from_slice(&b.ids);
        }
        Agg {
            count: a.count + b.count,
            sum: a.sum.wrapping_add(b.sum),
            xor: a.xor ^ b.xor,
            ids,
            ids_exact: exact,
            term: node_term(a.term, b.term),
            identities: a.identities + b.identities,
        }
    }
}

pub struct Item {
    canary: u64,
    serial: u32,
    pub val: u32,
    pub id: u64,
    heap: Box<u64>,
    agg: Option<Box<Agg>>,
}

impl Item {
    pub fn new(id: u64, val: u32) -> Item {
        Self::with_agg(id, val, None)
    }

    fn with_agg(id: u64, val: u32, agg: Option<Box<Agg>>) -> Item {
        let mut serial = NEXT.fetch_add(1, Relaxed);
        if (serial as usize) < TAB_CAP {
            TAB[serial as usize].store(LIVE, Relaxed);
        } else {
            OVERFLOW.fetch_add(1, Relaxed);
            serial = UNTRACKED;
        }
        Item {
            canary: MAGIC ^ serial as u64,
            serial,
            val,
            id,
            heap: Box::new(id ^ 0xABCD),
            agg,
        }
    }

    pub fn identity() -> Item {
        Self::with_agg(ID_IDENTITY, 0, Some(Box::new(Agg::identity())))
    }

    pub fn agg_view(&self) -> Agg {
        match &self.agg {
            Some(a) => (**a).clone(),
            None => Agg::leaf(self.id, self.val),
        }
    }

    /// the reduce operator used for owned elements: multiset union of contributions plus the term hash
    pub fn combine(a: Item, b: Item) -> Item {
        let u = Agg::union(&a.agg_view(), &b.agg_view());
        let val = a.val.max(b.val);
        Self::with_agg(ID_AGG, val, Some(Box::new(u)))
    }

    pub fn heap_ok(&self) -> bool {
        *self.heap == self.id ^ 0xABCD
    }

    pub fn canary_ok(&self) -> bool {
        self.canary == MAGIC ^ self.serial as u64
    }
}

impl Clone for Item {
    fn clone(&self) -> Item {
        Item::with_agg(self.id, self.val, self.agg.clone())
    }
}

impl Drop for Item {
    fn drop(&mut self) {
        if self.canary != MAGIC ^ self.serial as u64 {
            GARBAGE.fetch_add(1, Relaxed);
            let _ = FIRST_BAD.compare_exchange(u64::MAX, self.id, Relaxed, Relaxed);
            if !QUIET.load(Relaxed) {
                eprintln!(
                    "vh: DROP of garbage/poisoned Item (canary {:#x} serial {} id {:#x})",
                    self.canary, self.serial, self.id
                );
            }
            return;
        }
        if self.serial != UNTRACKED {
            let prev = TAB[self.serial as usize].swap(DROPPED, Relaxed);
            if prev != LIVE {
                DOUBLE.fetch_add(1, Relaxed);
                let _ = FIRST_BAD.compare_exchange(u64::MAX, self.id, Relaxed, Relaxed);
            }
        }
        self.canary = POISON;
    }
}

impl PartialEq for Item {
    fn eq(&self, o: &Self) -> bool {
        self.val == o.val && self.id == o.id
    }
}
impl Eq for Item {}
impl PartialOrd for Item {
    fn partial_cmp(&self, o: &Self) -> Option<std::cmp::Ordering> {
        Some(self.cmp(o))
    }
}
impl Ord for Item {
    fn cmp(&self, o: &Self) -> std::cmp::Ordering {
        (self.val, self.id).cmp(&(o.val, o.id))
    }
}
impl Default for Item {
    fn default() -> Self {
        Item::identity()
    }
}
impl std::ops::Add for Item {
    type Output = Item;
    fn add(self, o: Item) -> Item {
        Item::combine(self, o)
    }
}
impl std::fmt::Debug for Item {
    fn fmt(&self, f: &mut std::fmt::Formatter<'_>) -> std::fmt::Result {
        write!(f, "I({:#x},{})", self.id, self.val)
    }
}

// ------------------------------------------------------------------------------------------------
// drop monitor

#[derive(Clone, Debug, Default)]
pub struct DropReport {
    pub born: u64,
    pub dropped: u64,
    pub live: u64,
    pub double: u64,
    pub garbage: u64,
    pub overflow: u64,
    pub first_bad_id: u64,
    pub first_live_serial: u64,
}

/// resets the monitor; must be called at a quiescent point (no Item alive that matters)
pub fn reset() {
    let n = (NEXT.load(Relaxed) as usize).min(TAB_CAP);
    for t in TAB.iter().take(n) {
        t.store(UNBORN, Relaxed);
    }
    NEXT.store(0, Relaxed);
    DOUBLE.store(0, Relaxed);
    GARBAGE.store(0, Relaxed);
    OVERFLOW.store(0, Relaxed);
    FIRST_BAD.store(u64::MAX, Relaxed);
}

pub fn set_quiet(q: bool) {
    QUIET.store(q, Relaxed);
}

pub fn born() -> u64 {
    NEXT.load(Relaxed) as u64
}

pub fn report() -> DropReport {
    let born = NEXT.load(Relaxed) as u64;
    let n = (born as usize).min(TAB_CAP);
    let mut dropped = 0;
    let mut live = 0;
    let mut first_live = u64::MAX;
    for (i, t) in TAB.iter().take(n).enumerate() {
        match t.load(Relaxed) {
            DROPPED => dropped += 1,
            LIVE => {
                live += 1;
                if first_live == u64::MAX {
                    first_live = i as u64;
                }
            }
            _ => {}
        }
    }
    DropReport {
        born,
        dropped,
        live,
        double: DOUBLE.load(Relaxed),
        garbage: GARBAGE.load(Relaxed),
        overflow: OVERFLOW.load(Relaxed),
        first_bad_id: FIRST_BAD.load(Relaxed),
        first_live_serial: first_live,
    }
}
