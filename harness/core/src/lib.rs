//! Core of the verification harness: element type + drop monitor, case data, monitor context,
//! deterministic scheduler, instrumented closures and source, terminal driver, reference model.
pub mod case;
pub mod ctx;
pub mod drive;
pub mod item;
pub mod model;
pub mod sched;
pub mod stage;

pub struct ShapeInfo {
    pub src: char,
    pub shape: &'static str,
    /// stage indices whose upstream is materialised eagerly by the transformation call
    pub cuts: &'static [usize],
    /// `Type::method` of every transformation step
    pub labels: &'static [&'static str],
    pub has_index: bool,
    pub final_type: &'static str,
    /// the terminal sees `&Item` elements
    pub ref_elem: bool,
    pub run: for<'a> fn(&'a ctx::Ctx, case::Term) -> drive::Obs,
}

pub fn make_owned(ctx: &ctx::Ctx) -> Vec<item::Item> {
    (0..ctx.case.len as u64)
        .map(|p| item::Item::new(p << 12, ctx.case.val_at(p)))
        .collect()
}
