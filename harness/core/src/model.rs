//! Reference model: the same chain expressed with std::iter adaptors over plain (id, val) tuples and the
//! same pure stage functions.  Separate code path from the run under test: no Items, no shared logs.

use crate::case::*;
use std::cell::RefCell;
use std::rc::Rc;

pub type Tup = (u64, u32);
type Log = Rc<RefCell<Vec<(u8, u64)>>>;
type BoxIt<'a> = Box<dyn Iterator<Item = Tup> + 'a>;

#[derive(Clone, Debug, Default)]
pub struct ScOut {
    pub found: Option<Tup>,
    pub any: bool,
    pub all: bool,
    pub calls: Vec<(u8, u64)>,
}

#[derive(Clone, Debug, Default)]
pub struct ModelOut {
    /// survivors of a full traversal, in order
    pub full: Vec<Tup>,
    /// closure calls of a full sequential traversal (with eager cuts), in order
    pub full_calls: Vec<(u8, u64)>,
    /// lazy short-circuit evaluation (only for short-circuit terminals)
    pub sc: Option<ScOut>,
}

fn apply_stage<'a>(it: BoxIt<'a>, idx: u8, st: &'a StageSpec, log: Log) -> BoxIt<'a> {
    match st.kind {
        Kind::Map => Box::new(it.map(move |(id, val)| {
            log.borrow_mut().push((idx, id));
            (id, st.map_val(val))
        })),
        Kind::Filter => Box::new(it.filter(move |&(id, val)| {
            log.borrow_mut().push((idx, id));
            st.keep.keeps(id, val)
        })),
        Kind::FlatMap => Box::new(it.flat_map(move |(id, val)| {
            log.borrow_mut().push((idx, id));
            let n = st.fan(id, val);
            let v: Vec<Tup> = (0..n)
                .map(|j| (StageSpec::fan_id(id, j), st.map_val(val.wrapping_add(j as u32))))
                .collect();
            v
        })),
        Kind::FilterMapO | Kind::FilterMapR => Box::new(it.filter_map(move |(id, val)| {
            log.borrow_mut().push((idx, id));
            match st.keep.keeps(id, val) {
                true => Some((id, st.map_val(val))),
                false => None,
            }
        })),
    }
}

fn source<'a>(case: &'a Case, n: usize, log: Log) -> BoxIt<'a> {
    let first = if case.src == Src::ConIterVec { case.pre_consumed.min(n) as u64 } else { 0 };
    let base = (first..n as u64).map(move |p| (p << 12, case.val_at(p)));
    match case.src {
        Src::Range => Box::new(base.map(move |(id, val)| {
            log.borrow_mut().push((ST_LIFT, id));
            (id, val)
        })),
        _ => Box::new(base),
    }
}

/// builds the chain from `input` through stages[from..to]
fn chain<'a>(case: &'a Case, input: BoxIt<'a>, from: usize, to: usize, log: &Log) -> BoxIt<'a> {
    let mut it = input;
    for i in from..to {
        it = apply_stage(it, i as u8, &case.stages[i], log.clone());
    }
    it
}

/// `cuts`: stage indices before which the upstream is materialised eagerly (sorted)
pub fn run(case: &Case, cuts: &[usize], need_full: bool) -> ModelOut {
    let n = if case.endless { case.budget } else { case.len };
    let mut out = ModelOut::default();
    let depth = case.stages.len();

    // segments
    let mut bounds: Vec<usize> = vec![0];
    for &c in cuts {
        if c > 0 && c <= depth && !bounds.contains(&c) {
            bounds.push(c);
        }
    }
    bounds.push(depth);

    if need_full {
        let log: Log = Rc::new(RefCell::new(vec![]));
        let mut data: Vec<Tup> = {
            let it = source(case, n, log.clone());
            // the source (and lift) belong to the first segment: evaluate lazily with it
            let it = chain(case, it, bounds[0], bounds[1], &log);
            it.collect()
        };
        for w in 1..bounds.len() - 1 {
            let input: BoxIt = Box::new(data.into_iter());
            let it = chain(case, input, bounds[w], bounds[w + 1], &log);
            data = it.collect();
        }
        out.full = data;
        out.full_calls = log.borrow().clone();
    }

    if case.term.is_short_circuit() {
        let log: Log = Rc::new(RefCell::new(vec![]));
        let nseg = bounds.len() - 1;
        // all segments but the last are evaluated fully (eager sites), the last lazily
        let last_input: BoxIt = if nseg == 1 {
            source(case, n, log.clone())
        } else {
            let mut data: Vec<Tup> = {
                let it = source(case, n, log.clone());
                chain(case, it, bounds[0], bounds[1], &log).collect()
            };
            for w in 1..nseg - 1 {
                let input: BoxIt = Box::new(data.into_iter());
                data = chain(case, input, bounds[w], bounds[w + 1], &log).collect();
            }
            Box::new(data.into_iter())
        };
        let mut it = chain(case, last_input, bounds[nseg - 1], bounds[nseg], &log);
        let mut sc = ScOut::default();
        let plog = log.clone();
        let pred = |t: &Tup| {
            plog.borrow_mut().push((ST_PRED, t.0));
            case.pred.keeps(t.0, t.1)
        };
        match case.term {
            Term::First | Term::FirstIdx => {
                sc.found = it.next();
            }
            Term::Find | Term::FindIdx => {
                sc.found = it.find(pred);
            }
            Term::Any => {
                sc.any = it.any(|t| pred(&t));
            }
            Term::All => {
                sc.all = it.all(|t| pred(&t));
            }
            _ => unreachable!(),
        }
        drop(it);
        sc.calls = log.borrow().clone();
        out.sc = Some(sc);
    }
    out
}
