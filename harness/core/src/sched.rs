//! Deterministic turn-based scheduler (mode S).
//!
//! During one Runner run exactly one registered thread runs at a time.  Registered threads are the spawner
//! (pid 0, from RunBegin until SpawnerWaits) and the workers (pid 1.. in spawn order, from WorkerBegin until
//! WorkerEnd).  A thread gives up the turn only at a yield point: a runner hook or the entry of an
//! instrumented closure.  Unregistered threads pass through yield points.  Every schedule produced is a
//! real schedule of the real threads: threads are only ever delayed.

use crate::case::{Rng, Strategy};
use std::sync::{Condvar, Mutex, MutexGuard};
use std::time::{Duration, Instant};

#[derive(Clone, Copy, PartialEq, Eq, Debug)]
enum PState {
    Running,
    Waiting,
    Gone,
}

struct Part {
    tkey: u64,
    state: PState,
    prio: i64,
}

const NONE: usize = usize::MAX;

struct SS {
    active: bool,
    turn: usize,
    parts: Vec<Part>,
    rng: Rng,
    picks: Vec<u8>,
    steps: u64,
    change_points: Vec<u64>,
    low_prio: i64,
    stalled: bool,
    late: u64,
    timeouts: u64,
    phase: u8,
    phase_steps: u64,
    phase_limit: u64,
    spawner_budget: u64,
    victim: usize,
    victim_after: u64,
    victim_yields: u64,
    script: Vec<u8>,
    /// (choice taken, number of alternatives) at every decision point with >= 2 runnable threads
    decisions: Vec<(u8, u8)>,
    last_progress: Instant,
    runs: u32,
}

const NCV: usize = 48;

pub struct Sched {
    m: Mutex<SS>,
    /// one condition variable per participant (pid), so that a hand-over wakes exactly one thread
    cvs: Vec<Condvar>,
    strategy: Strategy,
}

pub const STALL_SECS: u64 = 60;

impl Sched {
    pub fn with_script(script: Vec<u8>) -> Sched {
        let s = Sched::new(Strategy::Script, 0);
        s.lock().script = script;
        s
    }

    pub fn decisions(&self) -> Vec<(u8, u8)> {
        self.lock().decisions.clone()
    }

    pub fn new(strategy: Strategy, seed: u64) -> Sched {
        let mut rng = Rng::new(seed);
        let change_points = (0..3).map(|_| rng.below(400)).collect();
        Sched {
            m: Mutex::new(SS {
                active: false,
                turn: NONE,
                parts: vec![],
                rng,
                picks: vec![],
                steps: 0,
                change_points,
                low_prio: -1,
                stalled: false,
                late: 0,
                timeouts: 0,
                phase: 0,
                phase_steps: 0,
                phase_limit: 0,
                spawner_budget: 0,
                victim: 0,
                victim_after: 0,
                victim_yields: 0,
                script: vec![],
                decisions: vec![],
                last_progress: Instant::now(),
                runs: 0,
            }),
            cvs: (0..NCV).map(|_| Condvar::new()).collect(),
            strategy,
        }
    }

    fn wake(&self, pid: usize) {
        if pid == NONE {
            return;
        }
        self.cvs[pid.min(NCV - 1)].notify_all();
    }

    fn wake_all(&self) {
        for c in &self.cvs {
            c.notify_all();
        }
    }

    fn lock(&self) -> MutexGuard<'_, SS> {
        self.m.lock().unwrap_or_else(|e| e.into_inner())
    }

    pub fn stalled(&self) -> bool {
        self.lock().stalled
    }

    pub fn wait_stats(&self) -> (u64, u64) {
        let g = self.lock();
        (g.late, g.timeouts)
    }

    pub fn picks(&self) -> Vec<u8> {
        self.lock().picks.clone()
    }

    pub fn begin_run(&self, tkey: u64) {
        let mut g = self.lock();
        let prio = g.rng.below(1000) as i64;
        g.active = !g.stalled;
        g.parts.clear();
        g.parts.push(Part {
            tkey,
            state: PState::Running,
            prio,
        });
        g.turn = 0;
        g.runs += 1;
        g.victim = 1 + g.rng.below(4) as usize;
        g.victim_after = 1 + g.rng.below(4);
        g.victim_yields = 0;
        g.phase = 0;
        g.phase_steps = 0;
        g.phase_limit = 10 + g.rng.below(40);
        g.spawner_budget = 1 + g.rng.below(4);
        g.picks.push(0xFE); // run separator
        g.last_progress = Instant::now();
    }

    pub fn end_run(&self) {
        let mut g = self.lock();
        g.active = false;
        g.turn = NONE;
        self.wake_all();
    }

    fn wait_until<'a, F: Fn(&SS) -> bool>(
        &'a self,
        mut g: MutexGuard<'a, SS>,
        me: usize,
        cond: F,
    ) -> MutexGuard<'a, SS> {
        loop {
            if !g.active || g.stalled || cond(&g) {
                return g;
            }
            let (ng, t) = self.cvs[me.min(NCV - 1)]
                .wait_timeout(g, Duration::from_millis(200))
                .unwrap_or_else(|e| e.into_inner());
            g = ng;
            if t.timed_out() {
                if cond(&g) || !g.active {
                    g.late += 1;
                } else {
                    g.timeouts += 1;
                }
            }
            if g.active && !cond(&g) && g.last_progress.elapsed() > Duration::from_secs(STALL_SECS) {
                // harness watchdog: release everybody, the case becomes inconclusive
                g.stalled = true;
                g.active = false;
                self.wake_all();
                return g;
            }
        }
    }

    fn pid_of(g: &SS, tkey: u64) -> Option<usize> {
        g.parts
            .iter()
            .position(|p| p.tkey == tkey && p.state != PState::Gone)
    }

    fn pick(&self, g: &mut SS, cur: usize) -> usize {
        let runnable: Vec<usize> = g
            .parts
            .iter()
            .enumerate()
            .filter(|(_, p)| p.state == PState::Waiting)
            .map(|(i, _)| i)
            .collect();
        if runnable.is_empty() {
            return NONE;
        }
        g.steps += 1;
        let workers: Vec<usize> = runnable.iter().copied().filter(|&i| i != 0).collect();
        let has_spawner = runnable.contains(&0);
        let cur_ok = cur != NONE && runnable.contains(&cur);
        let rnd_of = |g: &mut SS, v: &[usize]| v[g.rng.below(v.len() as u64) as usize];
        let sticky = |g: &mut SS, v: &[usize]| {
            if cur_ok && v.contains(&cur) && g.rng.chance(3, 4) {
                cur
            } else {
                v[g.rng.below(v.len() as u64) as usize]
            }
        };
        let next = match self.strategy {
            Strategy::Uniform => rnd_of(g, &runnable),
            Strategy::Sticky => sticky(g, &runnable),
            Strategy::SpawnerFirst => {
                if has_spawner {
                    0
                } else {
                    sticky(g, &workers)
                }
            }
            Strategy::SpawnerStarved => {
                if !workers.is_empty() {
                    sticky(g, &workers)
                } else {
                    0
                }
            }
            Strategy::NewestFirst => {
                if has_spawner {
                    0
                } else {
                    *workers.iter().max().unwrap_or(&0)
                }
            }
            Strategy::NewestStarved => {
                if !workers.is_empty() {
                    *workers.iter().max().unwrap_or(&0)
                } else {
                    0
                }
            }
            Strategy::OldestFirst => {
                if !workers.is_empty() {
                    *workers.iter().min().unwrap_or(&0)
                } else {
                    0
                }
            }
            Strategy::RoundRobin => {
                let start = if cur == NONE { 0 } else { cur + 1 };
                let n = g.parts.len();
                (0..n)
                    .map(|k| (start + k) % n)
                    .find(|i| runnable.contains(i))
                    .unwrap_or(runnable[0])
            }
            Strategy::LagGrow => {
                let nworkers = g.parts.len() - 1;
                let victim = g.victim;
                if g.phase == 0 && (!has_spawner || (cur == 0 && nworkers >= 4)) {
                    g.phase = 1;
                    g.phase_steps = 0;
                }
                if cur == victim && g.phase >= 1 {
                    g.victim_yields += 1;
                }
                let starved = g.victim_yields >= g.victim_after;
                let others: Vec<usize> = workers.iter().copied().filter(|&i| i != victim).collect();
                if g.phase == 1 {
                    g.phase_steps += 1;
                    if (g.phase_steps > g.phase_limit && (starved || !workers.contains(&victim)))
                        || (others.is_empty() && (starved || !workers.contains(&victim)))
                    {
                        g.phase = 2;
                        g.phase_steps = 0;
                    }
                }
                if g.phase == 2 {
                    // the spawner decides again: let it spawn `spawner_budget` more workers (with grown chunks)
                    if g.phase_steps == 0 {
                        g.phase_steps = nworkers as u64 + 1;
                    }
                    if !has_spawner || nworkers as u64 + 1 >= g.phase_steps + g.spawner_budget {
                        g.phase = 3;
                    }
                }
                match g.phase {
                    0 => 0,
                    1 => {
                        if !starved && workers.contains(&victim) && (others.is_empty() || g.rng.chance(1, 3)) {
                            victim
                        } else if !others.is_empty() {
                            sticky(g, &others)
                        } else if has_spawner {
                            0
                        } else {
                            victim
                        }
                    }
                    2 => 0,
                    _ => {
                        if !others.is_empty() && g.spawner_budget % 2 == 0 {
                            // the late workers run interleaved: each holds a chunk while the others make progress
                            rnd_of(g, &others)
                        } else if let Some(m) = others.iter().max() {
                            *m
                        } else if has_spawner {
                            0
                        } else {
                            victim
                        }
                    }
                }
            }
            Strategy::StarveOne => {
                if cur == g.victim {
                    g.victim_yields += 1;
                }
                let starved = g.victim_yields >= g.victim_after;
                let victim = g.victim;
                let others: Vec<usize> = workers.iter().copied().filter(|&i| !(starved && i == victim)).collect();
                if cur == victim && !starved && workers.contains(&victim) {
                    victim
                } else if !starved && workers.contains(&victim) && g.rng.chance(1, 2) {
                    victim
                } else if !others.is_empty() {
                    sticky(g, &others)
                } else if has_spawner {
                    0
                } else {
                    victim
                }
            }
            Strategy::Script => {
                // alternatives in a canonical order: the current thread first (choice 0 = no preemption), then by pid
                let mut alts: Vec<usize> = vec![];
                if cur_ok {
                    alts.push(cur);
                }
                for &i in &runnable {
                    if !alts.contains(&i) {
                        alts.push(i);
                    }
                }
                if alts.len() >= 2 {
                    let k = g.decisions.len();
                    let c = if k < g.script.len() { (g.script[k] as usize).min(alts.len() - 1) } else { 0 };
                    g.decisions.push((c as u8, alts.len().min(255) as u8));
                    alts[c]
                } else {
                    alts[0]
                }
            }
            Strategy::Pct => {
                if cur_ok && g.change_points.contains(&g.steps) {
                    g.low_prio -= 1;
                    let lp = g.low_prio;
                    g.parts[cur].prio = lp;
                }
                *runnable
                    .iter()
                    .max_by_key(|&&i| (g.parts[i].prio, i))
                    .unwrap_or(&runnable[0])
            }
        };
        g.picks.push(next.min(0xF0) as u8);
        g.last_progress = Instant::now();
        next
    }

    /// common yield: caller `pid` is registered and holds the turn
    fn yield_locked<'a>(&'a self, mut g: MutexGuard<'a, SS>, pid: usize) -> MutexGuard<'a, SS> {
        g.parts[pid].state = PState::Waiting;
        let next = self.pick(&mut g, pid);
        g.turn = next;
        if next != pid {
            self.wake(next);
            g = self.wait_until(g, pid, |s| s.turn == pid);
        }
        if pid < g.parts.len() {
            g.parts[pid].state = PState::Running;
        }
        g
    }

    pub fn yield_point(&self, tkey: u64) {
        let g = self.lock();
        if !g.active {
            return;
        }
        let pid = match Self::pid_of(&g, tkey) {
            Some(p) => p,
            None => return,
        };
        if g.turn != pid {
            // a registered thread running without the turn: only possible after a stall release
            return;
        }
        let _g = self.yield_locked(g, pid);
    }

    /// spawner hook with the number of workers spawned so far
    pub fn spawner_point(&self, num_spawned: usize) {
        let g = self.lock();
        if !g.active {
            return;
        }
        let g = self.wait_until(g, 0, |s| s.parts.len() > num_spawned);
        if !g.active {
            return;
        }
        let _g = self.yield_locked(g, 0);
    }

    pub fn spawner_done(&self, num_spawned: usize) {
        let g = self.lock();
        if !g.active {
            return;
        }
        let mut g = self.wait_until(g, 0, |s| s.parts.len() > num_spawned);
        if !g.active {
            return;
        }
        g.parts[0].state = PState::Gone;
        let next = self.pick(&mut g, NONE);
        g.turn = next;
        self.wake(next);
    }

    pub fn worker_begin(&self, tkey: u64) {
        let mut g = self.lock();
        if !g.active {
            return;
        }
        let prio = g.rng.below(1000) as i64;
        g.parts.push(Part {
            tkey,
            state: PState::Waiting,
            prio,
        });
        let pid = g.parts.len() - 1;
        g.last_progress = Instant::now();
        // the spawner may be waiting for this registration
        self.wake(0);
        let mut g = self.wait_until(g, pid, |s| s.turn == pid);
        if pid < g.parts.len() {
            g.parts[pid].state = PState::Running;
        }
    }

    pub fn worker_end(&self, tkey: u64) {
        let mut g = self.lock();
        if !g.active {
            return;
        }
        let pid = match Self::pid_of(&g, tkey) {
            Some(p) => p,
            None => return,
        };
        g.parts[pid].state = PState::Gone;
        if g.turn == pid {
            let next = self.pick(&mut g, NONE);
            g.turn = next;
            self.wake(next);
        }
    }
}
