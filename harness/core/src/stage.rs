//! Instrumented closures, instrumented source, and the element abstraction (owned Item / &Item).

use crate::case::*;
use crate::ctx::*;
use crate::item::*;
use orx_parallel::Par;
use std::sync::atomic::Ordering::Relaxed;

pub trait Elem<'a>: Send + Sync + Sized + Ord + 'a {
    const OWNED: bool;
    fn it(&self) -> &Item;
    /// pre-existing contents for collect_into targets
    fn pre(ctx: &'a Ctx, n: usize) -> Vec<Self>;
    /// pure part of the reduce operator
    fn op(a: Self, b: Self) -> Self;
    fn identity(ctx: &'a Ctx) -> Self;
    fn sum<P: Par<Item = Self>>(p: P) -> Option<Self>;
}

impl<'a> Elem<'a> for Item {
    const OWNED: bool = true;
    fn it(&self) -> &Item {
        self
    }
    fn pre(_ctx: &'a Ctx, n: usize) -> Vec<Self> {
        (0..n as u64).map(|k| Item::new(PRE_BASE + k, (k % 7) as u32)).collect()
    }
    fn op(a: Self, b: Self) -> Self {
        Item::combine(a, b)
    }
    fn identity(_ctx: &'a Ctx) -> Self {
        Item::identity()
    }
    fn sum<P: Par<Item = Self>>(p: P) -> Option<Self> {
        Some(p.sum())
    }
}

impl<'a> Elem<'a> for &'a Item {
    const OWNED: bool = false;
    fn it(&self) -> &Item {
        self
    }
    fn pre(ctx: &'a Ctx, n: usize) -> Vec<Self> {
        ctx.pre_items.iter().take(n).collect()
    }
    fn op(a: Self, b: Self) -> Self {
        // selection: minimum by (val, id)
        if (b.val, b.id) < (a.val, a.id) {
            b
        } else {
            a
        }
    }
    fn identity(ctx: &'a Ctx) -> Self {
        &ctx.identity_item
    }
    fn sum<P: Par<Item = Self>>(_p: P) -> Option<Self> {
        None
    }
}

// ---- stage closures (the Rust type of each depends only on the element type, never on the data)

pub fn mk_lift<'a>(ctx: &'a Ctx) -> impl Fn(usize) -> Item + Clone + Send + Sync + 'a {
    move |pos: usize| {
        let id = (pos as u64) << 12;
        ctx.enter(ST_LIFT, id, 0);
        let it = Item::new(id, ctx.case.val_at(pos as u64));
        ctx.exit(ST_LIFT, id, 1);
        it
    }
}

pub fn mk_map<'a, In: Elem<'a>>(ctx: &'a Ctx, idx: usize) -> impl Fn(In) -> Item + Clone + Send + Sync + 'a {
    move |x: In| {
        let (id, val) = (x.it().id, x.it().val);
        ctx.enter(idx as u8, id, 0);
        let st = &ctx.case.stages[idx];
        let out = Item::new(id, st.map_val(val));
        drop(x);
        ctx.exit(idx as u8, id, 1);
        out
    }
}

pub fn mk_filter<'a, In: Elem<'a>>(ctx: &'a Ctx, idx: usize) -> impl Fn(&In) -> bool + Clone + Send + Sync + 'a {
    move |x: &In| {
        let (id, val) = (x.it().id, x.it().val);
        ctx.enter(idx as u8, id, 0);
        let st = &ctx.case.stages[idx];
        // a partial predicate: like `.filter(|x| *x != 0).filter(|x| 100 / *x > 20)`, a filter that directly follows
        // another filter is only defined on what that one accepts
        if idx > 0 {
            let prev = &ctx.case.stages[idx - 1];
            if prev.kind == Kind::Filter && !prev.keep.keeps(id, val) {
                ctx.exit(idx as u8, id, 0);
                panic!("predicate of stage {} called outside its domain (element {:#x} was rejected by the preceding filter)", idx, id);
            }
        }
        let k = st.keep.keeps(id, val);
        ctx.exit(idx as u8, id, k as u64);
        k
    }
}

pub fn mk_flat_map<'a, In: Elem<'a>>(
    ctx: &'a Ctx,
    idx: usize,
) -> impl Fn(In) -> Vec<Item> + Clone + Send + Sync + 'a {
    move |x: In| {
        let (id, val) = (x.it().id, x.it().val);
        ctx.enter(idx as u8, id, 0);
        let st = &ctx.case.stages[idx];
        let n = st.fan(id, val);
        let v: Vec<Item> = (0..n)
            .map(|j| Item::new(StageSpec::fan_id(id, j), st.map_val(val.wrapping_add(j as u32))))
            .collect();
        drop(x);
        ctx.exit(idx as u8, id, n);
        v
    }
}

pub fn mk_filter_map_o<'a, In: Elem<'a>>(
    ctx: &'a Ctx,
    idx: usize,
) -> impl Fn(In) -> Option<Item> + Clone + Send + Sync + 'a {
    move |x: In| {
        let (id, val) = (x.it().id, x.it().val);
        ctx.enter(idx as u8, id, 0);
        let st = &ctx.case.stages[idx];
        let out = match st.keep.keeps(id, val) {
            true => Some(Item::new(id, st.map_val(val))),
            false => None,
        };
        drop(x);
        ctx.exit(idx as u8, id, out.is_some() as u64);
        out
    }
}

pub fn mk_filter_map_r<'a, In: Elem<'a>>(
    ctx: &'a Ctx,
    idx: usize,
) -> impl Fn(In) -> Result<Item, Item> + Clone + Send + Sync + 'a {
    move |x: In| {
        let (id, val) = (x.it().id, x.it().val);
        ctx.enter(idx as u8, id, 0);
        let st = &ctx.case.stages[idx];
        // the error payload is a drop-tracked Item too: an intermediate value that must be dropped exactly once
        let out = match st.keep.keeps(id, val) {
            true => Ok(Item::new(id, st.map_val(val))),
            false => Err(Item::new(id, val)),
        };
        drop(x);
        ctx.exit(idx as u8, id, out.is_ok() as u64);
        out
    }
}

pub fn mk_pred<'a, T: Elem<'a>>(ctx: &'a Ctx) -> impl Fn(&T) -> bool + Clone + Send + Sync + 'a {
    move |x: &T| {
        let (id, val) = (x.it().id, x.it().val);
        ctx.enter(ST_PRED, id, 0);
        let k = ctx.case.pred.keeps(id, val);
        ctx.exit(ST_PRED, id, k as u64);
        k
    }
}

pub fn mk_op<'a, T: Elem<'a>>(ctx: &'a Ctx) -> impl Fn(T, T) -> T + Clone + Send + Sync + 'a {
    move |a: T, b: T| {
        let (ia, ib) = (a.it().id, b.it().id);
        ctx.enter(ST_OP, ia, ib);
        let r = T::op(a, b);
        ctx.exit(ST_OP, ia, 1);
        r
    }
}

pub fn mk_body<'a, T: Elem<'a>>(ctx: &'a Ctx) -> impl Fn(T) + Clone + Send + Sync + 'a {
    move |x: T| {
        let id = x.it().id;
        ctx.enter(ST_BODY, id, x.it().val as u64);
        drop(x);
        ctx.exit(ST_BODY, id, 1);
    }
}

pub fn mk_key<'a, T: Elem<'a>>(ctx: &'a Ctx) -> impl Fn(&T) -> (u32, u64) + Clone + Send + Sync + 'a {
    move |x: &T| {
        let (id, val) = (x.it().id, x.it().val);
        ctx.enter(ST_KEY, id, 0);
        ctx.exit(ST_KEY, id, 1);
        (val, id)
    }
}

/// key with ties: val only
pub fn mk_key_ties<'a, T: Elem<'a>>(ctx: &'a Ctx) -> impl Fn(&T) -> u32 + Clone + Send + Sync + 'a {
    move |x: &T| {
        let (id, val) = (x.it().id, x.it().val);
        ctx.enter(ST_KEY, id, 0);
        ctx.exit(ST_KEY, id, 1);
        val
    }
}

pub fn mk_cmp<'a, T: Elem<'a>>(
    ctx: &'a Ctx,
    ties: bool,
) -> impl Fn(&T, &T) -> std::cmp::Ordering + Clone + Send + Sync + 'a {
    move |a: &T, b: &T| {
        let (ia, ib) = (a.it().id, b.it().id);
        ctx.enter(ST_CMP, ia, ib);
        let r = if ties {
            a.it().val.cmp(&b.it().val)
        } else {
            (a.it().val, ia).cmp(&(b.it().val, ib))
        };
        ctx.exit(ST_CMP, ia, 1);
        r
    }
}

// ---- instrumented by-value iterator source

pub struct Probe<'a> {
    ctx: &'a Ctx,
    pos: u64,
    len: u64,
    exact: bool,
    endless: bool,
    done: bool,
}

impl<'a> Probe<'a> {
    pub fn new(ctx: &'a Ctx, exact: bool) -> Probe<'a> {
        let c = &ctx.case;
        Probe {
            ctx,
            pos: 0,
            len: if c.endless { c.budget as u64 } else { c.len as u64 },
            exact,
            endless: c.endless,
            done: false,
        }
    }
}

impl<'a> Iterator for Probe<'a> {
    type Item = Item;

    fn next(&mut self) -> Option<Item> {
        let ctx = self.ctx;
        if ctx.probe_busy.swap(true, Relaxed) {
            ctx.probe_reentry.fetch_add(1, Relaxed);
        }
        ctx.pulls.fetch_add(1, Relaxed);
        for _ in 0..ctx.case.probe_spin {
            std::hint::spin_loop();
        }
        if ctx.case.probe_sleep_us > 0 && ctx.case.mode == Mode::F {
            let r = crate::item::mix64(self.pos ^ ctx.case.seed);
            if r % 4 == 0 {
                std::thread::sleep(std::time::Duration::from_micros(1 + (r >> 8) % ctx.case.probe_sleep_us as u64));
            }
        }
        let out = if self.done || self.pos >= self.len {
            if self.endless && !self.done {
                ctx.budget_exhausted.store(true, Relaxed);
            }
            self.done = true;
            ctx.log_here(K_PULL, 0, PULL_END, 0);
            None
        } else {
            let p = self.pos;
            self.pos += 1;
            ctx.log_here(K_PULL, 0, p << 12, 0);
            Some(Item::new(p << 12, ctx.case.val_at(p)))
        };
        ctx.probe_busy.store(false, Relaxed);
        out
    }

    fn size_hint(&self) -> (usize, Option<usize>) {
        if self.exact && !self.endless {
            let r = (self.len - self.pos) as usize;
            (r, Some(r))
        } else {
            (0, None)
        }
    }
}
