//! plain-type probes for C13 (see ../../common/probes.rs)
#![allow(unused_macros, unused_variables, dead_code)]
#[path = "../../common/probes.rs"]
mod probes;

fn main() {
    let a: Vec<String> = std::env::args().collect();
    probes::main(&a[1..]);
}
