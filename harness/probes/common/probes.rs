//! Plain-type probes: sources and adaptors that the instrumented table does not instantiate (std maps, sets, heaps and
//! lists by value and by reference, arrays, `copied()`, `cloned()` on Strings) run with plain `u64` / `String` items
//! through a dozen fixed chains and every value-returning terminal, compared with the std iterator over the *same
//! instance* (iteration order of hash-based collections is read from the instance before it is consumed).
//! Free-running only, no instrumentation: this observes results, nothing else.
//!
//!   probe_cXX <property> <seed> <out.json> <rounds>   (one small binary per property, so that each check compiles only
//!   the terminals it needs)

use orx_parallel::prelude::*;
use std::collections::{BTreeMap, BTreeSet, BinaryHeap, HashMap, HashSet, LinkedList, VecDeque};
use std::num::NonZeroUsize;

struct Rng(u64);
impl Rng {
    fn next(&mut self) -> u64 {
        self.0 = self.0.wrapping_add(0x9e37_79b9_7f4a_7c15);
        let mut x = self.0;
        x ^= x >> 30;
        x = x.wrapping_mul(0xbf58_476d_1ce4_e5b9);
        x ^= x >> 27;
        x = x.wrapping_mul(0x94d0_49bb_1331_11eb);
        x ^ (x >> 31)
    }
    fn below(&mut self, n: u64) -> u64 {
        self.next() % n.max(1)
    }
}

#[derive(Clone, Copy)]
struct Cfg {
    nt: usize,
    cs: ChunkSize,
}

fn cfg(r: &mut Rng) -> Cfg {
    let nt = [0usize, 1, 2, 3, 5, 8, 16][r.below(7) as usize];
    let c = 1 + r.below(6) as usize;
    let cs = match r.below(4) {
        0 => ChunkSize::Auto,
        1 | 2 => ChunkSize::Exact(NonZeroUsize::new(c).unwrap()),
        _ => ChunkSize::Min(NonZeroUsize::new(c).unwrap()),
    };
    Cfg { nt, cs }
}

pub struct Out {
    pub cases: u64,
    pub kinds: std::collections::BTreeSet<String>,
    pub violations: Vec<String>,
    pub sample: Vec<String>,
    pub fault: [u64; 4],
}

fn m1(x: u64) -> u64 {
    x.wrapping_mul(31) ^ 5
}
fn f1(x: &u64) -> bool {
    x % 3 != 1
}
fn f2(x: &u64) -> bool {
    x % 5 != 2
}
fn fm(x: u64) -> Option<u64> {
    if x % 4 == 0 {
        None
    } else {
        Some(x / 2 + 1)
    }
}
fn fmr(x: u64) -> Result<u64, String> {
    if x % 7 == 3 {
        Err(format!("e{}", x))
    } else {
        Ok(x + 9)
    }
}
fn xm(x: u64) -> Vec<u64> {
    (0..(x % 3)).map(|j| x * 4 + j).collect()
}

/// runs every chain x terminal over one source; `mk` builds a fresh Par over the same data each time,
/// `order` is the std iteration order of that data
fn probe<P, F>(o: &mut Out, prop: &str, label: &str, c: Cfg, order: &[u64], mk: F)
where
    P: Par<Item = u64>,
    F: Fn() -> P,
{
    let set = |p: P| p.num_threads(c.nt).chunk_size(c.cs);
    macro_rules! chains {
        ($term:ident) => {{
            $term!("", |p: P| p, |it: std::vec::IntoIter<u64>| it);
            $term!("map", |p: P| p.map(m1), |it: std::vec::IntoIter<u64>| it.map(m1));
            $term!("filter", |p: P| p.filter(f1), |it: std::vec::IntoIter<u64>| it.filter(f1));
            $term!("map.filter", |p: P| p.map(m1).filter(f1), |it: std::vec::IntoIter<u64>| it.map(m1).filter(f1));
            $term!("filter.filter.map", |p: P| p.filter(f1).filter(f2).map(m1), |it: std::vec::IntoIter<u64>| it
                .filter(f1)
                .filter(f2)
                .map(m1));
            $term!("filter_map", |p: P| p.filter_map(fm), |it: std::vec::IntoIter<u64>| it.filter_map(fm));
            $term!("filter_map(Result).filter", |p: P| p.filter_map(fmr).filter(f2), |it: std::vec::IntoIter<u64>| it
                .filter_map(|x| fmr(x).ok())
                .filter(f2));
            $term!("flat_map", |p: P| p.flat_map(xm), |it: std::vec::IntoIter<u64>| it.flat_map(xm));
            $term!("flat_map.filter.map", |p: P| p.flat_map(xm).filter(f1).map(m1), |it: std::vec::IntoIter<u64>| it
                .flat_map(xm)
                .filter(f1)
                .map(m1));
            $term!("map.flat_map.filter_map", |p: P| p.map(m1).flat_map(xm).filter_map(fm), |it: std::vec::IntoIter<u64>| it
                .map(m1)
                .flat_map(xm)
                .filter_map(fm));
        }};
    }
    let seq = || order.to_vec().into_iter();
    macro_rules! report {
        ($chain:expr, $what:expr, $got:expr, $exp:expr) => {{
            o.cases += 1;
            o.kinds.insert(format!("{} / {} / {}", label, $chain, $what));
            if $got != $exp {
                let g = format!("{:?}", $got);
                let e = format!("{:?}", $exp);
                o.violations.push(format!(
                    "{} .{} .{} (nt={} cs={:?}, {} elements): got {:.200}, std gives {:.200}",
                    label,
                    $chain,
                    $what,
                    c.nt,
                    c.cs,
                    order.len(),
                    g,
                    e
                ));
            }
        }};
    }
    match prop {
        #[cfg(feature = "c01")]
        "C01" => {
            macro_rules! t {
                ($n:expr, $pc:expr, $sc:expr) => {{
                    let exp: Vec<u64> = $sc(seq()).collect();
                    let got = $pc(set(mk())).collect_vec();
                    report!($n, "collect_vec", got, exp);
                    let got: Vec<u64> = $pc(set(mk())).collect().into_iter().collect();
                    report!($n, "collect", got, exp);
                    let got: Vec<u64> = $pc(set(mk())).collect_into(FixedVec::new(0)).into_iter().collect();
                    report!($n, "collect_into(FixedVec)", got, exp);
                }};
            }
            chains!(t);
        }
        #[cfg(feature = "c06")]
        "C06" => {
            macro_rules! t {
                ($n:expr, $pc:expr, $sc:expr) => {{
                    let mut exp: Vec<u64> = vec![7, 7, 7];
                    exp.extend($sc(seq()));
                    let got = $pc(set(mk())).collect_into(vec![7u64, 7, 7]);
                    report!($n, "collect_into(vec![7,7,7])", got, exp);
                    let mut sv = SplitVec::with_linear_growth(3);
                    sv.push(7u64);
                    sv.push(7);
                    sv.push(7);
                    let got: Vec<u64> = $pc(set(mk())).collect_into(sv).into_iter().collect();
                    report!($n, "collect_into(SplitVec<Linear>)", got, exp);
                }};
            }
            chains!(t);
        }
        #[cfg(feature = "c07")]
        "C07" => {
            macro_rules! t {
                ($n:expr, $pc:expr, $sc:expr) => {{
                    let mut exp: Vec<u64> = $sc(seq()).collect();
                    exp.sort();
                    let mut got: Vec<u64> = $pc(set(mk())).collect_x().into_iter().collect();
                    got.sort();
                    report!($n, "collect_x (sorted)", got, exp);
                }};
            }
            chains!(t);
        }
        #[cfg(feature = "c04")]
        "C04" => {
            macro_rules! t {
                ($n:expr, $pc:expr, $sc:expr) => {{
                    let exp = $sc(seq()).count();
                    let got = $pc(set(mk())).count();
                    report!($n, "count", got, exp);
                    let acc = std::sync::atomic::AtomicU64::new(0);
                    let n = std::sync::atomic::AtomicU64::new(0);
                    $pc(set(mk())).for_each(|x| {
                        acc.fetch_add(x.wrapping_mul(2654435761), std::sync::atomic::Ordering::Relaxed);
                        n.fetch_add(1, std::sync::atomic::Ordering::Relaxed);
                    });
                    let exp2 = $sc(seq()).fold((0u64, 0u64), |a, x| (a.0.wrapping_add(x.wrapping_mul(2654435761)), a.1 + 1));
                    let got2 = (acc.load(std::sync::atomic::Ordering::Relaxed), n.load(std::sync::atomic::Ordering::Relaxed));
                    report!($n, "for_each (checksum, calls)", got2, exp2);
                }};
            }
            chains!(t);
        }
        #[cfg(feature = "c03")]
        "C03" => {
            macro_rules! t {
                ($n:expr, $pc:expr, $sc:expr) => {{
                    let exp = $sc(seq()).reduce(|a, b| a.wrapping_add(b));
                    let got = $pc(set(mk())).reduce(|a, b| a.wrapping_add(b));
                    report!($n, "reduce(+)", got, exp);
                    report!($n, "min", $pc(set(mk())).min(), $sc(seq()).min());
                    report!($n, "max", $pc(set(mk())).max(), $sc(seq()).max());
                    report!($n, "fold(xor)", $pc(set(mk())).fold(|| 0, |a, b| a ^ b), $sc(seq()).fold(0, |a, b| a ^ b));
                    report!($n, "max_by_key(x%11, x)", $pc(set(mk())).max_by_key(|x| (x % 11, *x)), $sc(seq()).max_by_key(|x| (x % 11, *x)));
                }};
            }
            chains!(t);
        }
        #[cfg(feature = "c02")]
        "C02" => {
            macro_rules! t {
                ($n:expr, $pc:expr, $sc:expr) => {{
                    let all: Vec<u64> = $sc(seq()).collect();
                    let target = all.get(all.len() / 2).copied().unwrap_or(1);
                    report!($n, "first", $pc(set(mk())).first(), $sc(seq()).next());
                    report!($n, "find(x % 4 == t % 4)", $pc(set(mk())).find(|x| x % 4 == target % 4), $sc(seq()).find(|x| x % 4 == target % 4));
                    report!($n, "any", $pc(set(mk())).any(|x| *x == target), $sc(seq()).any(|x| x == target));
                    report!($n, "all", $pc(set(mk())).all(|x| *x != target), $sc(seq()).all(|x| x != target));
                }};
            }
            chains!(t);
        }
        _ => {}
    }
}

pub fn main(a: &[String]) {
    let prop = a.first().cloned().unwrap_or_else(|| "C01".into());
    let seed: u64 = a.get(1).and_then(|s| s.parse().ok()).unwrap_or(0);
    let out_path = a.get(2).cloned().unwrap_or_default();
    let rounds: u64 = a.get(3).and_then(|s| s.parse().ok()).unwrap_or(20);
    let mut r = Rng(seed ^ 0x51ed_270b);
    let mut o = Out {
        cases: 0,
        kinds: Default::default(),
        violations: vec![],
        sample: vec![],
        fault: [0; 4],
    };
    let t0 = std::time::Instant::now();
    for round in 0..rounds {
        let n = match r.below(4) {
            0 => r.below(4),
            1 | 2 => r.below(40),
            _ => r.below(400),
        } as usize;
        let data: Vec<u64> = (0..n).map(|_| r.below(1000)).collect();
        let c = cfg(&mut r);
        let p = prop.as_str();
        if round == 0 {
            o.sample.push(format!("round 0: {} elements {:?}, nt={} cs={:?}", n, &data[..n.min(12)], c.nt, c.cs));
        }

        // by-reference sources + copied()
        probe(&mut o, p, "Vec.par().copied()", c, &data, || data.par().copied());
        let hs: HashSet<u64> = data.iter().copied().collect();
        let order: Vec<u64> = hs.iter().copied().collect();
        probe(&mut o, p, "HashSet.par().copied()", c, &order, || hs.par().copied());
        let bh: BinaryHeap<u64> = data.iter().copied().collect();
        let order: Vec<u64> = bh.iter().copied().collect();
        probe(&mut o, p, "BinaryHeap.par().copied()", c, &order, || bh.par().copied());
        let bs: BTreeSet<u64> = data.iter().copied().collect();
        let order: Vec<u64> = bs.iter().copied().collect();
        probe(&mut o, p, "BTreeSet.par().copied()", c, &order, || bs.par().copied());
        let ll: LinkedList<u64> = data.iter().copied().collect();
        probe(&mut o, p, "LinkedList.par().copied()", c, &data, || ll.par().copied());
        let mut vd: VecDeque<u64> = VecDeque::with_capacity(n + 2);
        for (i, x) in data.iter().enumerate() {
            if i < n / 3 {
                vd.push_front(*x);
            } else {
                vd.push_back(*x);
            }
        }
        let order: Vec<u64> = vd.iter().copied().collect();
        probe(&mut o, p, "VecDeque(wrapped).par().copied()", c, &order, || vd.par().copied());
        let arr: [u64; 13] = std::array::from_fn(|i| data.get(i).copied().unwrap_or(i as u64));
        probe(&mut o, p, "[u64; 13].par().copied()", c, &arr, || arr.par().copied());
        let bm: BTreeMap<u64, u64> = data.iter().enumerate().map(|(i, x)| (*x, i as u64)).collect();
        let order: Vec<u64> = bm.iter().map(|(k, v)| k * 1000 + v).collect();
        probe(&mut o, p, "BTreeMap.par().map((k,v))", c, &order, || bm.par().map(|(k, v)| k * 1000 + v));
        let hm: HashMap<u64, u64> = data.iter().enumerate().map(|(i, x)| (*x, i as u64)).collect();
        let order: Vec<u64> = hm.iter().map(|(k, v)| k * 1000 + v).collect();
        probe(&mut o, p, "HashMap.par().map((k,v))", c, &order, || hm.par().map(|(k, v)| k * 1000 + v));
        let strs: Vec<String> = data.iter().map(|x| x.to_string()).collect();
        probe(&mut o, p, "Vec<String>.par().cloned().map(parse)", c, &data, || {
            strs.par().cloned().map(|s: String| s.parse::<u64>().unwrap_or(0))
        });

        // by-value sources (consumed on every build: rebuilt from a clone; hash-based ones keep their layout when cloned,
        // the order is nevertheless read from the very instance that is consumed)
        {
            let order_cell = std::cell::RefCell::new(Vec::<u64>::new());
            let probe_hs = |o: &mut Out| {
                // one terminal at a time would need one order per instance; cloning preserves the table layout
                let inst = hs.clone();
                *order_cell.borrow_mut() = inst.iter().copied().collect();
                let ord = order_cell.borrow().clone();
                probe(o, p, "HashSet.into_par()", c, &ord, || hs.clone().into_par());
            };
            probe_hs(&mut o);
        }
        {
            let ord: Vec<u64> = bh.clone().into_iter().collect();
            probe(&mut o, p, "BinaryHeap.into_par()", c, &ord, || bh.clone().into_par());
        }
        {
            let ord: Vec<u64> = bm.clone().into_iter().map(|(k, v)| k * 1000 + v).collect();
            probe(&mut o, p, "BTreeMap.into_par().map((k,v))", c, &ord, || bm.clone().into_par().map(|(k, v)| k * 1000 + v));
        }
        {
            let ord: Vec<u64> = hm.clone().into_iter().map(|(k, v)| k * 1000 + v).collect();
            probe(&mut o, p, "HashMap.into_par().map((k,v))", c, &ord, || hm.clone().into_par().map(|(k, v)| k * 1000 + v));
        }
        probe(&mut o, p, "LinkedList.into_par()", c, &data, || ll.clone().into_par());
        {
            let ord: Vec<u64> = bs.iter().copied().collect();
            probe(&mut o, p, "BTreeSet.into_par()", c, &ord, || bs.clone().into_par());
        }
        probe(&mut o, p, "(a..b).into_par().map", c, &data, || (0..n).into_par().map(|i| data[i]));
    }
    preconsumed(&mut o, &prop);
    if prop == "C09" {
        seq_ties(&mut o, seed);
    }
    if prop == "C16" {
        lazy_adaptors(&mut o);
    }
    if prop == "C13" {
        zst_drops(&mut o);
    }
    if matches!(prop.as_str(), "C01" | "C03" | "C04" | "C07") {
        spawn_faults(&mut o, &prop, seed);
    }
    let json = format!(
        "{{\"prop\":\"{}\",\"seed\":{},\"n\":0,\"fault_runs\":{},\"fault_fired\":{},\"fault_panic_propagated\":{},\"fault_correct_result\":{},\"cases_count\":{},\"cases\":[{}],\"sample\":[{}],\"violations\":[{}],\"wall_s\":{:.2}}}",
        prop,
        seed,
        o.fault[0],
        o.fault[1],
        o.fault[2],
        o.fault[3],
        o.cases,
        o.kinds.iter().map(|s| format!("{:?}", s)).collect::<Vec<_>>().join(","),
        o.sample.iter().map(|s| format!("{:?}", s)).collect::<Vec<_>>().join(","),
        o.violations.iter().take(40).map(|s| format!("{:?}", s)).collect::<Vec<_>>().join(","),
        t0.elapsed().as_secs_f64()
    );
    if out_path.is_empty() {
        println!("{}", json);
    } else {
        std::fs::write(out_path, json).expect("write");
    }
}

/// A concurrent iterator that was partially consumed before it became a `Par` (`IntoPar for ConIterOfVec`).
/// Violations found here carry their own key (`[key=...]` prefix), see KNOWN_FINDINGS.txt.
fn preconsumed(o: &mut Out, prop: &str) {
    let prev_hook = std::panic::take_hook();
    std::panic::set_hook(Box::new(|_| {}));
    preconsumed_inner(o, prop);
    std::panic::set_hook(prev_hook);
}

fn preconsumed_inner(o: &mut Out, prop: &str) {
    use orx_concurrent_iter::{ConcurrentIterX, IntoConcurrentIter};
    use std::panic::{catch_unwind, AssertUnwindSafe};
    for &(n, k) in &[(12usize, 1usize), (40, 7), (200, 150)] {
        let data: Vec<u64> = (0..n as u64).map(|x| x * 3 + 1).collect();
        let make = || {
            let it = data.clone().into_con_iter();
            for _ in 0..k {
                let _ = it.next();
            }
            it
        };
        let rest: Vec<u64> = data[k..].to_vec();
        match prop {
            "C01" => {
                // map-only ordered collect of the remaining elements
                for nt in [2usize, 4] {
                    o.cases += 1;
                    o.kinds.insert("ConIterOfVec(partially consumed).into_par() / map / collect_vec".to_string());
                    let r = catch_unwind(AssertUnwindSafe(|| make().into_par().num_threads(nt).chunk_size(2).map(m1).collect_vec()));
                    let exp: Vec<u64> = rest.iter().copied().map(m1).collect();
                    match r {
                        Ok(got) if got == exp => {}
                        Ok(got) => o.violations.push(format!(
                            "[key=preconsumed-coniter:map-only-collect] {} of {} elements consumed before into_par(), nt={}: map.collect_vec returned {} elements, the remaining input has {}",
                            k, n, nt, got.len(), exp.len()
                        )),
                        Err(_) => o.violations.push(format!(
                            "[key=preconsumed-coniter:map-only-collect] {} of {} elements consumed before into_par(), nt={}: map.collect_vec panicked (results are written at absolute source positions into a target reserved for the remaining length)",
                            k, n, nt
                        )),
                    }
                    // filtering collects use relative order only: must be fine
                    o.cases += 1;
                    let got = make().into_par().num_threads(nt).chunk_size(2).filter(f1).collect_vec();
                    let exp: Vec<u64> = rest.iter().copied().filter(f1).collect();
                    if got != exp {
                        o.violations.push(format!("partially consumed ConIterOfVec: filter.collect_vec differs ({} vs {} elements)", got.len(), exp.len()));
                    }
                }
            }
            "C02" => {
                o.cases += 1;
                o.kinds.insert("ConIterOfVec(partially consumed).into_par() / first_with_index".to_string());
                let par = make().into_par().num_threads(3).chunk_size(2).first_with_index();
                let seq = make().into_par().num_threads(1).first_with_index();
                if par != seq {
                    o.violations.push(format!(
                        "[key=preconsumed-coniter:index-differs-between-modes] {} of {} elements consumed before into_par(): first_with_index returns {:?} in parallel mode (position in the underlying vector) and {:?} with num_threads(1) (position among the remaining elements)",
                        k, n, par, seq
                    ));
                }
                o.cases += 1;
                let got = make().into_par().num_threads(3).chunk_size(2).find(|x| x % 5 == 0);
                let exp = rest.iter().copied().find(|x| x % 5 == 0);
                if got != exp {
                    o.violations.push(format!("partially consumed ConIterOfVec: find returned {:?}, expected {:?}", got, exp));
                }
            }
            "C04" => {
                for nt in [1usize, 3] {
                    o.cases += 3;
                    o.kinds.insert("ConIterOfVec(partially consumed).into_par() / count, filter.count, for_each".to_string());
                    let got = make().into_par().num_threads(nt).chunk_size(2).count();
                    if got != rest.len() {
                        o.violations.push(format!("partially consumed ConIterOfVec ({} of {} taken), nt={}: count() returned {}, {} elements remain", k, n, nt, got, rest.len()));
                    }
                    let got = make().into_par().num_threads(nt).chunk_size(2).filter(f1).count();
                    let exp = rest.iter().filter(|x| f1(x)).count();
                    if got != exp {
                        o.violations.push(format!("partially consumed ConIterOfVec, nt={}: filter.count returned {}, expected {}", nt, got, exp));
                    }
                    let calls = std::sync::atomic::AtomicU64::new(0);
                    make().into_par().num_threads(nt).chunk_size(2).for_each(|_| {
                        calls.fetch_add(1, std::sync::atomic::Ordering::Relaxed);
                    });
                    if calls.load(std::sync::atomic::Ordering::Relaxed) != rest.len() as u64 {
                        o.violations.push(format!("partially consumed ConIterOfVec, nt={}: for_each ran {} times, {} elements remain", nt, calls.load(std::sync::atomic::Ordering::Relaxed), rest.len()));
                    }
                }
            }
            "C03" => {
                o.cases += 2;
                o.kinds.insert("ConIterOfVec(partially consumed).into_par() / reduce, max".to_string());
                let got = make().into_par().num_threads(3).chunk_size(2).reduce(|a, b| a.wrapping_add(b));
                let exp = rest.iter().copied().reduce(|a, b| a.wrapping_add(b));
                if got != exp {
                    o.violations.push(format!("partially consumed ConIterOfVec: reduce(+) returned {:?}, expected {:?}", got, exp));
                }
                let got = make().into_par().num_threads(3).chunk_size(2).map(m1).max();
                let exp = rest.iter().copied().map(m1).max();
                if got != exp {
                    o.violations.push(format!("partially consumed ConIterOfVec: map.max returned {:?}, expected {:?}", got, exp));
                }
            }
            "C07" => {
                o.cases += 1;
                o.kinds.insert("ConIterOfVec(partially consumed).into_par() / collect_x".to_string());
                let mut got: Vec<u64> = make().into_par().num_threads(3).chunk_size(2).map(m1).collect_x().into_iter().collect();
                got.sort();
                let mut exp: Vec<u64> = rest.iter().copied().map(m1).collect();
                exp.sort();
                if got != exp {
                    o.violations.push(format!("partially consumed ConIterOfVec: map.collect_x has {} elements, expected {}", got.len(), exp.len()));
                }
            }
            "C09" => {}
            _ => {}
        }
    }
}

/// an item whose order ignores part of the value: equal elements are distinguishable
#[derive(Clone, Copy, Debug)]
struct Tie(u64, u64);
impl PartialEq for Tie {
    fn eq(&self, o: &Self) -> bool {
        self.0 == o.0
    }
}
impl Eq for Tie {}
impl PartialOrd for Tie {
    fn partial_cmp(&self, o: &Self) -> Option<std::cmp::Ordering> {
        Some(self.cmp(o))
    }
}
impl Ord for Tie {
    fn cmp(&self, o: &Self) -> std::cmp::Ordering {
        self.0.cmp(&o.0)
    }
}

/// C09: with num_threads(1) the Ord-based terminals min() / max() return exactly what Iterator::min / Iterator::max
/// return, also when several distinguishable elements are equally extremal (std keeps the first minimum and the last
/// maximum).  (min_by/max_by/..._by_key with ties are deliberately not pinned, see DESIGN.md section 4, C09.)
fn seq_ties(o: &mut Out, seed: u64) {
    let mut r = Rng(seed ^ 0x71e5);
    for round in 0..200u64 {
        let n = 1 + r.below(40) as usize;
        let data: Vec<Tie> = (0..n).map(|i| Tie(r.below(5), i as u64)).collect();
        let cs = [ChunkSize::Auto, ChunkSize::Exact(NonZeroUsize::new(1 + r.below(5) as usize).unwrap())][(round % 2) as usize];
        let same = |a: Option<Tie>, b: Option<Tie>| a.map(|t| (t.0, t.1)) == b.map(|t| (t.0, t.1));
        o.cases += 4;
        o.kinds.insert("sequential mode / Ord with ties / max, min, filter.max, map.min".to_string());
        let got = data.clone().into_par().num_threads(1).chunk_size(cs).max();
        let exp = data.iter().copied().max();
        if !same(got, exp) {
            o.violations.push(format!("num_threads(1): max() over {} elements with equal maxima returned {:?}, Iterator::max returns {:?}", n, got, exp));
        }
        let got = data.clone().into_par().num_threads(1).chunk_size(cs).min();
        let exp = data.iter().copied().min();
        if !same(got, exp) {
            o.violations.push(format!("num_threads(1): min() over {} elements with equal minima returned {:?}, Iterator::min returns {:?}", n, got, exp));
        }
        let got = data.par().num_threads(1).chunk_size(cs).filter(|t| t.1 % 3 != 0).map(|t| *t).max();
        let exp = data.iter().filter(|t| t.1 % 3 != 0).copied().max();
        if !same(got, exp) {
            o.violations.push(format!("num_threads(1): filter.map.max returned {:?}, std returns {:?}", got, exp));
        }
        let got = data.clone().into_par().num_threads(1).chunk_size(cs).map(|t| Tie(4 - t.0.min(4), t.1)).min();
        let exp = data.iter().map(|t| Tie(4 - t.0.min(4), t.1)).min();
        if !same(got, exp) {
            o.violations.push(format!("num_threads(1): map.min returned {:?}, std returns {:?}", got, exp));
        }
    }
}

/// C16 for the adaptors outside the instrumented table: `copied()` / `cloned()` after steps that still yield
/// references.  Counters of closure calls and of source pulls are read after every construction step (must be 0) and
/// after the terminal (must equal the sequential numbers); with num_threads(1) in effect at the terminal nothing may
/// run on another thread.
fn lazy_adaptors(o: &mut Out) {
    use std::sync::atomic::{AtomicU64, Ordering::Relaxed};
    let data: Vec<u64> = (0..64).map(|x| x * 7 % 23).collect();
    let nested: Vec<Vec<u64>> = (0..16).map(|i| (0..(i % 4)).collect()).collect();
    let me = std::thread::current().id();
    for variant in 0..8u32 {
        let calls = AtomicU64::new(0);
        let pulls = AtomicU64::new(0);
        let foreign = AtomicU64::new(0);
        let see = || {
            calls.fetch_add(1, Relaxed);
            if std::thread::current().id() != me {
                foreign.fetch_add(1, Relaxed);
            }
        };
        let check_lazy = |o: &mut Out, step: &str| {
            o.cases += 1;
            if calls.load(Relaxed) != 0 || pulls.load(Relaxed) != 0 {
                o.violations.push(format!(
                    "[key=eager:{}] {} ran {} closure calls and consumed {} source elements before any terminal was called",
                    step,
                    step,
                    calls.load(Relaxed),
                    pulls.load(Relaxed)
                ));
            }
        };
        o.kinds.insert(format!("laziness of copied()/cloned(), variant {}", variant));
        let nt_last = if variant % 2 == 0 { 3 } else { 1 };
        let (got, exp): (u64, u64) = match variant / 2 {
            0 => {
                let p = data.par().num_threads(4).filter(|x| {
                    see();
                    **x % 3 != 0
                });
                check_lazy(o, "ParFilter(slice)::filter");
                let p = p.copied();
                check_lazy(o, "ParIntoCopied::copied");
                let p = p.num_threads(nt_last);
                let got = p.reduce(|a, b| a.wrapping_add(b)).unwrap_or(0);
                (got, data.iter().filter(|x| **x % 3 != 0).sum())
            }
            1 => {
                let p = data.par().num_threads(4).filter(|x| {
                    see();
                    **x % 2 == 0
                });
                let p = p.cloned();
                check_lazy(o, "ParIntoCloned::cloned");
                let p = p.num_threads(nt_last);
                (p.count() as u64, data.iter().filter(|x| **x % 2 == 0).count() as u64)
            }
            2 => {
                let p = nested.par().num_threads(4).flat_map(|v| {
                    see();
                    v.iter()
                });
                check_lazy(o, "ParEmpty::flat_map(refs)");
                let p = p.copied();
                check_lazy(o, "ParIntoCopied::copied(after flat_map)");
                let p = p.num_threads(nt_last);
                (p.reduce(|a, b| a + b).unwrap_or(0), nested.iter().flat_map(|v| v.iter()).sum())
            }
            _ => {
                let src = data.iter().inspect(|_| {
                    pulls.fetch_add(1, Relaxed);
                });
                let p = src.par().num_threads(4);
                check_lazy(o, "IterIntoPar::par");
                let p = p.copied();
                check_lazy(o, "ParIntoCopied::copied(iterator of refs)");
                let p = p.num_threads(nt_last);
                (p.reduce(|a, b| a + b).unwrap_or(0), data.iter().sum())
            }
        };
        o.cases += 1;
        if got != exp {
            o.violations.push(format!("copied()/cloned() pipeline variant {}: result {} differs from the sequential {}", variant, got, exp));
        }
        if nt_last == 1 && foreign.load(Relaxed) > 0 {
            o.violations.push(format!(
                "[key=params-at-terminal] variant {}: num_threads(1) was in effect at the terminal call but {} closure calls ran on other threads",
                variant,
                foreign.load(Relaxed)
            ));
        }
    }
}

/// C13 for an element type the instrumented table cannot have: a zero-sized type with a destructor.  Every value the
/// pipeline creates must be dropped exactly once by the time the result is dropped (created == dropped, counted in
/// statics because a zero-sized value cannot carry an id).
fn zst_drops(o: &mut Out) {
    use std::sync::atomic::{AtomicU64, Ordering::Relaxed};
    static CREATED: AtomicU64 = AtomicU64::new(0);
    static DROPPED: AtomicU64 = AtomicU64::new(0);
    struct Token;
    impl Token {
        fn new() -> Token {
            CREATED.fetch_add(1, Relaxed);
            Token
        }
    }
    impl Drop for Token {
        fn drop(&mut self) {
            DROPPED.fetch_add(1, Relaxed);
        }
    }
    let mut check = |o: &mut Out, label: &str, n: usize, nt: usize, f: &dyn Fn(usize, usize)| {
        CREATED.store(0, Relaxed);
        DROPPED.store(0, Relaxed);
        f(n, nt);
        o.cases += 1;
        o.kinds.insert(format!("zero-sized Drop type / {}", label));
        let (c, d) = (CREATED.load(Relaxed), DROPPED.load(Relaxed));
        if c != d {
            o.violations.push(format!(
                "zero-sized element type with a destructor, {} ({} elements, nt={}): {} values were created and {} dropped",
                label, n, nt, c, d
            ));
        }
    };
    for &n in &[1usize, 2, 7, 64, 300] {
        for &nt in &[1usize, 2, 5] {
            check(o, "range.map.collect_vec", n, nt, &|n, nt| {
                let v = (0..n).into_par().num_threads(nt).chunk_size(3).map(|_| Token::new()).collect_vec();
                assert_eq!(v.len(), n);
            });
            check(o, "vec.map.collect_into(Vec with previous contents)", n, nt, &|n, nt| {
                let prev: Vec<Token> = (0..3).map(|_| Token::new()).collect();
                let v = (0..n).collect::<Vec<_>>().into_par().num_threads(nt).map(|_| Token::new()).collect_into(prev);
                assert_eq!(v.len(), n + 3);
            });
            check(o, "slice.map.collect_into(FixedVec)", n, nt, &|n, nt| {
                let data: Vec<usize> = (0..n).collect();
                let v = data.par().num_threads(nt).chunk_size(2).map(|_| Token::new()).collect_into(FixedVec::new(0));
                assert_eq!(v.len(), n);
            });
            check(o, "range.map.filter.collect_vec", n, nt, &|n, nt| {
                let v = (0..n).into_par().num_threads(nt).map(|_| Token::new()).filter(|_| true).collect_vec();
                assert_eq!(v.len(), n);
            });
            check(o, "range.map.count / for_each / reduce", n, nt, &|n, nt| {
                let c = (0..n).into_par().num_threads(nt).map(|_| Token::new()).count();
                assert_eq!(c, n);
                (0..n).into_par().num_threads(nt).map(|_| Token::new()).for_each(|t| drop(t));
                let _ = (0..n).into_par().num_threads(nt).chunk_size(2).map(|_| Token::new()).reduce(|a, b| {
                    drop(b);
                    a
                });
            });
            check(o, "vec-of-tokens.into_par().first / find", n, nt, &|n, nt| {
                let src: Vec<Token> = (0..n).map(|_| Token::new()).collect();
                let _ = src.into_par().num_threads(nt).chunk_size(2).first();
                let src: Vec<Token> = (0..n).map(|_| Token::new()).collect();
                let _ = src.into_par().num_threads(nt).map(|t| t).find(|_| false);
            });
        }
    }
}

// ------------------------------------------------------------------------------------------------------------------
// Fault injection: thread creation fails (pthread_create -> EAGAIN).
//
// The probe binary defines `pthread_create` itself; std (linked statically into the binary) therefore calls this
// definition, which forwards to libc's (`dlsym(RTLD_NEXT)`) unless the attempt number falls into the window
// [FAIL_FROM, FAIL_UNTIL) of the current run.  With the window empty (the default) it is a pure pass-through.
// Oracle: a terminal whose worker creation fails must either propagate a panic or return exactly the result of the
// sequential computation; it must never return normally with elements lost or duplicated (C01, C03, C04, C07).
// ------------------------------------------------------------------------------------------------------------------
mod spawn_fault {
    use std::ffi::c_void;
    use std::sync::atomic::{AtomicU64, AtomicUsize, Ordering::SeqCst};
    pub static ATTEMPT: AtomicU64 = AtomicU64::new(0);
    pub static FAIL_FROM: AtomicU64 = AtomicU64::new(u64::MAX);
    pub static FAIL_UNTIL: AtomicU64 = AtomicU64::new(u64::MAX);
    pub static FIRED: AtomicU64 = AtomicU64::new(0);
    static REAL: AtomicUsize = AtomicUsize::new(0);
    type Start = extern "C" fn(*mut c_void) -> *mut c_void;
    type Create = unsafe extern "C" fn(*mut c_void, *const c_void, Start, *mut c_void) -> i32;
    extern "C" {
        fn dlsym(handle: *mut c_void, symbol: *const u8) -> *mut c_void;
    }
    #[no_mangle]
    pub unsafe extern "C" fn pthread_create(t: *mut c_void, attr: *const c_void, f: Start, arg: *mut c_void) -> i32 {
        let k = ATTEMPT.fetch_add(1, SeqCst);
        if k >= FAIL_FROM.load(SeqCst) && k < FAIL_UNTIL.load(SeqCst) {
            FIRED.fetch_add(1, SeqCst);
            return 11; // EAGAIN
        }
        let mut real = REAL.load(SeqCst);
        if real == 0 {
            real = dlsym(usize::MAX as *mut c_void, b"pthread_create\0".as_ptr()) as usize; // RTLD_NEXT
            if real == 0 {
                return 38; // ENOSYS: no real pthread_create found (never seen)
            }
            REAL.store(real, SeqCst);
        }
        let real: Create = std::mem::transmute::<usize, Create>(real);
        real(t, attr, f, arg)
    }
    /// arms the window for the next run: attempts from..until (counted from now) fail
    pub fn arm(from: u64, until: u64) {
        ATTEMPT.store(0, SeqCst);
        FIRED.store(0, SeqCst);
        FAIL_UNTIL.store(until, SeqCst);
        FAIL_FROM.store(from, SeqCst);
    }
    pub fn disarm() -> u64 {
        FAIL_FROM.store(u64::MAX, SeqCst);
        FAIL_UNTIL.store(u64::MAX, SeqCst);
        FIRED.load(SeqCst)
    }
}

fn spawn_faults(o: &mut Out, prop: &str, seed: u64) {
    let prev_hook = std::panic::take_hook();
    std::panic::set_hook(Box::new(|_| {}));
    spawn_faults_inner(o, prop, seed);
    std::panic::set_hook(prev_hook);
}

fn spawn_faults_inner(o: &mut Out, prop: &str, seed: u64) {
    use std::panic::{catch_unwind, AssertUnwindSafe};
    // self-check of the injector: a thread cannot be created while the window is open, and can afterwards
    spawn_fault::arm(0, u64::MAX);
    let refused = std::thread::Builder::new().spawn(|| ()).is_err();
    spawn_fault::disarm();
    let allowed = std::thread::Builder::new().spawn(|| ()).map(|h| h.join().is_ok()).unwrap_or(false);
    if !(refused && allowed) {
        o.sample.push(format!("spawn-fault injector INCONCLUSIVE (refused={}, allowed={}): skipped", refused, allowed));
        return;
    }
    let mut r = Rng(seed ^ 0x5fa_017);
    let (mut fired_runs, mut panicked, mut correct_despite_fault, mut runs) = (0u64, 0u64, 0u64, 0u64);
    // (first failing attempt, number of failing attempts)
    let windows: [(u64, u64); 7] = [(0, u64::MAX), (1, u64::MAX), (2, u64::MAX), (0, 1), (1, 1), (3, 2), (4, u64::MAX)];
    let lens = [1usize, 2, 5, 33, 257, 5000];
    for &n in &lens {
        let data: Vec<u64> = (0..n).map(|_| r.below(1000)).collect();
        for &nt in &[0usize, 2, 3, 8] {
            for &cs in &[0usize, 1, 4] {
                for &(from, cnt) in &windows {
                    let until = from.saturating_add(cnt);
                    // every entry: (label, run -> canonical Vec<u64> result, expected, order matters)
                    let seq_m: Vec<u64> = data.iter().map(|x| m1(*x)).collect();
                    let seq_f: Vec<u64> = data.iter().copied().filter(f1).collect();
                    let seq_mf: Vec<u64> = data.iter().map(|x| m1(*x)).filter(f2).collect();
                    let seq_x: Vec<u64> = data.iter().flat_map(|x| xm(*x)).collect();
                    let seq_o: Vec<u64> = data.iter().filter_map(|x| fm(*x)).collect();
                    let seq_xf: Vec<u64> = data.iter().flat_map(|x| xm(*x)).filter(f1).collect();
                    let sorted = |mut v: Vec<u64>| {
                        v.sort_unstable();
                        v
                    };
                    type Run<'a> = Box<dyn Fn() -> Vec<u64> + 'a>;
                    let mut table: Vec<(&str, Run, Vec<u64>)> = Vec::new();
                    let d = &data;
                    if prop == "C01" {
                        table.push(("vec.map.collect_vec", Box::new(move || d.clone().into_par().num_threads(nt).chunk_size(cs).map(m1).collect_vec()), seq_m.clone()));
                        table.push(("slice.filter.collect_vec", Box::new(move || d.par().num_threads(nt).chunk_size(cs).copied().filter(f1).collect_vec()), seq_f.clone()));
                        table.push(("iter.map.filter.collect", Box::new(move || d.iter().par().num_threads(nt).chunk_size(cs).map(|x| m1(*x)).filter(f2).collect().into_iter().collect()), seq_mf.clone()));
                        table.push(("vec.flat_map.collect_vec", Box::new(move || d.clone().into_par().num_threads(nt).chunk_size(cs).flat_map(xm).collect_vec()), seq_x.clone()));
                        table.push(("range.filter_map.collect_vec", Box::new(move || (0..d.len()).into_par().num_threads(nt).chunk_size(cs).filter_map(|i| fm(d[i])).collect_vec()), seq_o.clone()));
                        table.push(("vec.flat_map.filter.collect_into(vec![7])", Box::new(move || d.clone().into_par().num_threads(nt).chunk_size(cs).flat_map(xm).filter(f1).collect_into(vec![7u64])), {
                            let mut e = vec![7u64];
                            e.extend(seq_xf.iter().copied());
                            e
                        }));
                    }
                    if prop == "C07" {
                        table.push(("vec.map.collect_x", Box::new(move || sorted(d.clone().into_par().num_threads(nt).chunk_size(cs).map(m1).collect_x().into_iter().collect())), sorted(seq_m.clone())));
                        table.push(("slice.filter.collect_x", Box::new(move || sorted(d.par().num_threads(nt).chunk_size(cs).copied().filter(f1).collect_x().into_iter().collect())), sorted(seq_f.clone())));
                        table.push(("iter.map.filter.collect_x", Box::new(move || sorted(d.iter().par().num_threads(nt).chunk_size(cs).map(|x| m1(*x)).filter(f2).collect_x().into_iter().collect())), sorted(seq_mf.clone())));
                        table.push(("vec.flat_map.collect_x", Box::new(move || sorted(d.clone().into_par().num_threads(nt).chunk_size(cs).flat_map(xm).collect_x().into_iter().collect())), sorted(seq_x.clone())));
                        table.push(("range.filter_map.collect_x", Box::new(move || sorted((0..d.len()).into_par().num_threads(nt).chunk_size(cs).filter_map(|i| fm(d[i])).collect_x().into_iter().collect())), sorted(seq_o.clone())));
                        table.push(("vec.flat_map.filter.collect_x", Box::new(move || sorted(d.clone().into_par().num_threads(nt).chunk_size(cs).flat_map(xm).filter(f1).collect_x().into_iter().collect())), sorted(seq_xf.clone())));
                    }
                    if prop == "C04" {
                        table.push(("vec.map.count", Box::new(move || vec![d.clone().into_par().num_threads(nt).chunk_size(cs).map(m1).count() as u64]), vec![seq_m.len() as u64]));
                        table.push(("slice.filter.count", Box::new(move || vec![d.par().num_threads(nt).chunk_size(cs).copied().filter(f1).count() as u64]), vec![seq_f.len() as u64]));
                        table.push(("iter.flat_map.filter.count", Box::new(move || vec![d.iter().par().num_threads(nt).chunk_size(cs).flat_map(|x| xm(*x)).filter(f1).count() as u64]), vec![seq_xf.len() as u64]));
                        table.push(("range.filter_map.count", Box::new(move || vec![(0..d.len()).into_par().num_threads(nt).chunk_size(cs).filter_map(|i| fm(d[i])).count() as u64]), vec![seq_o.len() as u64]));
                        table.push(("vec.filter.for_each(sum)", Box::new(move || {
                            let s = std::sync::atomic::AtomicU64::new(0);
                            d.clone().into_par().num_threads(nt).chunk_size(cs).filter(f1).for_each(|x| {
                                s.fetch_add(x + 1, std::sync::atomic::Ordering::Relaxed);
                            });
                            vec![s.into_inner()]
                        }), vec![seq_f.iter().map(|x| x + 1).sum::<u64>()]));
                    }
                    if prop == "C03" {
                        table.push(("vec.map.sum", Box::new(move || vec![d.clone().into_par().num_threads(nt).chunk_size(cs).map(m1).sum()]), vec![seq_m.iter().sum::<u64>()]));
                        table.push(("slice.filter.reduce(+)", Box::new(move || d.par().num_threads(nt).chunk_size(cs).copied().filter(f1).reduce(|a, b| a + b).into_iter().collect()), if seq_f.is_empty() { vec![] } else { vec![seq_f.iter().sum::<u64>()] }));
                        table.push(("iter.flat_map.max", Box::new(move || d.iter().par().num_threads(nt).chunk_size(cs).flat_map(|x| xm(*x)).max().into_iter().collect()), seq_x.iter().copied().max().into_iter().collect()));
                        table.push(("range.filter_map.fold(+)", Box::new(move || vec![(0..d.len()).into_par().num_threads(nt).chunk_size(cs).filter_map(|i| fm(d[i])).fold(|| 0u64, |a, b| a + b)]), vec![seq_o.iter().sum::<u64>()]));
                        table.push(("vec.map.filter.min", Box::new(move || d.clone().into_par().num_threads(nt).chunk_size(cs).map(m1).filter(f2).min().into_iter().collect()), seq_mf.iter().copied().min().into_iter().collect()));
                    }
                    for (label, run, expect) in table.iter() {
                        spawn_fault::arm(from, until);
                        let got = catch_unwind(AssertUnwindSafe(|| run()));
                        let fired = spawn_fault::disarm();
                        runs += 1;
                        o.cases += 1;
                        o.kinds.insert(format!("thread-creation fault / {}", label));
                        if fired > 0 {
                            fired_runs += 1;
                        }
                        match got {
                            Err(_) => {
                                panicked += 1;
                                if fired == 0 {
                                    o.violations.push(format!(
                                        "{} panicked although no thread-creation fault was injected (n={}, nt={}, cs={}, window from {} x{})",
                                        label, n, nt, cs, from, cnt
                                    ));
                                }
                            }
                            Ok(v) => {
                                if fired > 0 {
                                    correct_despite_fault += 1;
                                }
                                if &v != expect {
                                    o.violations.push(format!(
                                        "{}: thread creation failed {} time(s) (attempts {}.. x{}), the terminal returned normally with a wrong result: n={}, nt={}, cs={}: got {} values {:?}, expected {} values {:?}",
                                        label, fired, from, cnt, n, nt, cs, v.len(), &v[..v.len().min(8)], expect.len(), &expect[..expect.len().min(8)]
                                    ));
                                }
                            }
                        }
                    }
                }
            }
        }
    }
    o.fault = [runs, fired_runs, panicked, correct_despite_fault];
    o.sample.push(format!(
        "thread-creation faults: {} runs, the fault fired in {} of them ({} propagated a panic, {} returned the correct result nevertheless)",
        runs, fired_runs, panicked, correct_despite_fault
    ));
}
