//! Executes one case against the real library and gathers everything the monitors observed.

use std::collections::HashMap;
use std::panic::{catch_unwind, AssertUnwindSafe};
use std::sync::atomic::Ordering::Relaxed;
use std::sync::Mutex;
use vhc::case::*;
use vhc::ctx::*;
use vhc::drive::Obs;
use vhc::item::{self, DropReport};
use vhc::model::{self, ModelOut};
use vhc::ShapeInfo;

pub static PANIC_MSGS: Mutex<Vec<String>> = Mutex::new(Vec::new());

pub fn install_panic_hook() {
    std::panic::set_hook(Box::new(|info| {
        let msg = if let Some(s) = info.payload().downcast_ref::<&str>() {
            s.to_string()
        } else if let Some(s) = info.payload().downcast_ref::<String>() {
            s.clone()
        } else {
            "<non-string panic>".to_string()
        };
        let loc = info
            .location()
            .map(|l| format!("{}:{}", l.file(), l.line()))
            .unwrap_or_default();
        if let Ok(mut g) = PANIC_MSGS.lock() {
            if g.len() < 64 {
                g.push(format!("{} @ {}", msg, loc));
            }
        }
    }));
}

pub struct Exec {
    pub case: Case,
    pub info: &'static ShapeInfo,
    /// Ok(observation) or Err(panic messages)
    pub obs: Result<Obs, Vec<String>>,
    pub events: Vec<(usize, u64, Vec<Ev>)>,
    pub steps: Vec<StepObs>,
    pub runs: Vec<RunInfo>,
    pub max_active: i64,
    pub max_live_workers: i64,
    pub worker_begins: u64,
    pub probe_reentry: u64,
    pub pulls: u64,
    pub injected: u64,
    pub budget_exhausted: bool,
    pub slot_overflow: bool,
    pub stalled: bool,
    pub picks: Vec<u8>,
    pub caller_tkey: u64,
    pub drops: DropReport,
    /// Items owned by the monitor context itself (alive when the drop report is taken)
    pub ctx_owned: u64,
    pub model: ModelOut,
    pub wall_us: u128,
    pub wait_stats: (u64, u64),
    pub decisions: Vec<(u8, u8)>,
    pub spawn_fault_engaged: bool,
}

// ---- operating-system fault: no thread can be created while the guard lives

#[repr(C)]
struct RLimit {
    cur: u64,
    max: u64,
}
extern "C" {
    fn getrlimit(resource: i32, rlim: *mut RLimit) -> i32;
    fn setrlimit(resource: i32, rlim: *const RLimit) -> i32;
    fn mallopt(param: i32, value: i32) -> i32;
}
const RLIMIT_AS: i32 = 9;

/// Makes the allocator keep freed memory (so that the harness itself does not need new address space while the limit
/// is lowered) and pre-grows the heap once per process.
pub fn prepare_heap_for_spawn_faults() {
    unsafe {
        // M_TRIM_THRESHOLD = -1, M_MMAP_THRESHOLD = -3, M_ARENA_MAX = -8
        mallopt(-1, i32::MAX);
        mallopt(-3, 1 << 30);
    }
    let mut hold: Vec<Vec<u8>> = Vec::new();
    for _ in 0..96 {
        hold.push(vec![1u8; 1 << 20]);
    }
    drop(hold);
}

pub struct NoNewThreads {
    prev: Option<RLimit>,
    parked: Vec<std::thread::JoinHandle<()>>,
    release: std::sync::Arc<std::sync::atomic::AtomicBool>,
}

impl NoNewThreads {
    pub fn engage() -> NoNewThreads {
        // the C library keeps the stacks of finished threads in a cache: occupy them with parked threads first, so that
        // a new thread really needs new address space
        let release = std::sync::Arc::new(std::sync::atomic::AtomicBool::new(false));
        let mut parked = vec![];
        for _ in 0..40 {
            let r = release.clone();
            if let Ok(h) = std::thread::Builder::new().spawn(move || {
                while !r.load(std::sync::atomic::Ordering::Acquire) {
                    std::thread::park_timeout(std::time::Duration::from_millis(20));
                }
            }) {
                parked.push(h);
            }
        }
        let mut g = Self::engage_limit();
        g.parked = parked;
        g.release = release;
        g
    }

    fn engage_limit() -> NoNewThreads {
        let vm_pages: u64 = std::fs::read_to_string("/proc/self/statm")
            .ok()
            .and_then(|s| s.split_whitespace().next().and_then(|x| x.parse().ok()))
            .unwrap_or(0);
        if vm_pages == 0 {
            return NoNewThreads { prev: None, parked: vec![], release: Default::default() };
        }
        let mut old = RLimit { cur: 0, max: 0 };
        unsafe {
            if getrlimit(RLIMIT_AS, &mut old) != 0 {
                return NoNewThreads { prev: None, parked: vec![], release: Default::default() };
            }
            // less than one thread stack (2 MiB) of new address space
            let lim = RLimit {
                cur: vm_pages * 4096,
                max: old.max,
            };
            if setrlimit(RLIMIT_AS, &lim) != 0 {
                return NoNewThreads { prev: None, parked: vec![], release: Default::default() };
            }
        }
        NoNewThreads { prev: Some(old), parked: vec![], release: Default::default() }
    }
    pub fn engaged(&self) -> bool {
        self.prev.is_some()
    }
}

impl Drop for NoNewThreads {
    fn drop(&mut self) {
        if let Some(old) = &self.prev {
            unsafe {
                setrlimit(RLIMIT_AS, old);
            }
        }
        self.release.store(true, std::sync::atomic::Ordering::Release);
        for h in self.parked.drain(..) {
            h.thread().unpark();
            let _ = h.join();
        }
    }
}

pub fn find_shape(shapes: &[&'static ShapeInfo], src: Src, shape: &str) -> Option<&'static ShapeInfo> {
    shapes
        .iter()
        .copied()
        .find(|s| s.src == src.letter() && s.shape == shape)
}

pub fn exec(shapes: &[&'static ShapeInfo], case: Case) -> Exec {
    let info = find_shape(shapes, case.src, &case.shape).expect("unknown (src, shape)");
    let t0 = std::time::Instant::now();
    if let Ok(mut g) = PANIC_MSGS.lock() {
        g.clear();
    }
    item::reset();
    let need_full = !case.endless;
    let model = model::run(&case, info.cuts, need_full);
    let term = case.term;
    let ctx = Ctx::new(case.clone());
    let ctx_owned = item::born();
    ctx.install();
    let guard = if case.spawn_fail { Some(NoNewThreads::engage()) } else { None };
    let r = catch_unwind(AssertUnwindSafe(|| (info.run)(&ctx, term)));
    let spawn_fault_engaged = guard.as_ref().map(|g| g.engaged()).unwrap_or(false);
    drop(guard);
    ctx.uninstall();
    let obs = match r {
        Ok(o) => Ok(o),
        Err(payload) => {
            let mut msgs: Vec<String> = PANIC_MSGS.lock().map(|g| g.clone()).unwrap_or_default();
            if let Some(s) = payload.downcast_ref::<&str>() {
                msgs.push(format!("payload: {}", s));
            } else if let Some(s) = payload.downcast_ref::<String>() {
                msgs.push(format!("payload: {}", s));
            }
            drop(payload);
            Err(msgs)
        }
    };
    let drops = item::report();
    let events = ctx.collect_events();
    let steps = ctx.steps.lock().map(|g| g.clone()).unwrap_or_default();
    let runs = ctx.runs.lock().map(|g| g.clone()).unwrap_or_default();
    let (stalled, picks) = match &ctx.sched {
        Some(s) => (s.stalled(), s.picks()),
        None => (false, vec![]),
    };
    let wait_stats = ctx.sched.as_ref().map(|s| s.wait_stats()).unwrap_or((0, 0));
    let decisions = ctx.sched.as_ref().map(|s| s.decisions()).unwrap_or_default();
    let e = Exec {
        spawn_fault_engaged,
        decisions,
        wait_stats,
        case,
        info,
        obs,
        events,
        steps,
        runs,
        max_active: ctx.max_active.load(Relaxed),
        max_live_workers: ctx.max_live_workers.load(Relaxed),
        worker_begins: ctx.worker_begins.load(Relaxed),
        probe_reentry: ctx.probe_reentry.load(Relaxed),
        pulls: ctx.pulls.load(Relaxed),
        injected: ctx.injected.load(Relaxed),
        budget_exhausted: ctx.budget_exhausted.load(Relaxed),
        slot_overflow: ctx.slot_overflow.load(Relaxed),
        stalled,
        picks,
        caller_tkey: ctx.caller_tkey,
        drops,
        ctx_owned,
        model,
        wall_us: t0.elapsed().as_micros(),
    };
    drop(ctx);
    e
}

// ---- derived views over the event log

#[derive(Clone, Copy, Debug)]
pub struct Call {
    pub seq: u64,
    pub slot: usize,
    pub tkey: u64,
    pub stage: u8,
    pub id: u64,
    pub b: u64,
}

impl Exec {
    pub fn calls(&self) -> Vec<Call> {
        let mut v = vec![];
        for (slot, tkey, evs) in &self.events {
            for e in evs {
                if e.kind == K_CALL {
                    v.push(Call {
                        seq: e.seq,
                        slot: *slot,
                        tkey: *tkey,
                        stage: e.stage,
                        id: e.a,
                        b: e.b,
                    });
                }
            }
        }
        v.sort_by_key(|c| c.seq);
        v
    }

    pub fn rets(&self) -> Vec<Call> {
        let mut v = vec![];
        for (slot, tkey, evs) in &self.events {
            for e in evs {
                if e.kind == K_RET {
                    v.push(Call {
                        seq: e.seq,
                        slot: *slot,
                        tkey: *tkey,
                        stage: e.stage,
                        id: e.a,
                        b: e.b,
                    });
                }
            }
        }
        v.sort_by_key(|c| c.seq);
        v
    }

    pub fn call_counts(&self) -> HashMap<(u8, u64), u32> {
        let mut m = HashMap::new();
        for c in self.calls() {
            *m.entry((c.stage, c.id)).or_insert(0) += 1;
        }
        m
    }

    /// first stage that sees every source element (LIFT for range sources, else stage 0), if any
    pub fn first_stage(&self) -> Option<u8> {
        if self.case.src == Src::Range {
            Some(ST_LIFT)
        } else if !self.case.stages.is_empty() {
            Some(0)
        } else {
            None
        }
    }

    /// origin position -> slot of the thread that ran the first stage on it
    pub fn owners(&self) -> Vec<(u64, usize)> {
        let fs = match self.first_stage() {
            Some(s) => s,
            None => return vec![],
        };
        let mut v: Vec<(u64, usize)> = self
            .calls()
            .iter()
            .filter(|c| c.stage == fs)
            .map(|c| (c.id >> 12, c.slot))
            .collect();
        v.sort();
        v
    }

    /// number of distinct non-caller threads that executed at least one instrumented closure
    pub fn active_workers(&self) -> usize {
        let mut s: Vec<u64> = self
            .calls()
            .iter()
            .filter(|c| c.tkey != self.caller_tkey)
            .map(|c| c.tkey)
            .collect();
        s.sort();
        s.dedup();
        s.len()
    }

    /// interleaving signature: hash of the (normalised) position -> thread assignment
    pub fn signature(&self) -> u64 {
        let owners = self.owners();
        let mut norm: HashMap<usize, u64> = HashMap::new();
        let mut h: u64 = 0xcbf2_9ce4_8422_2325;
        for (o, slot) in owners {
            let n = norm.len() as u64;
            let t = *norm.entry(slot).or_insert(n);
            h = item::mix64(h ^ o.wrapping_mul(31) ^ (t << 40));
        }
        h
    }
}
