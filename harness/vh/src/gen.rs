//! Case generation: one profile per property.  A case is a pure function of (property, profile, index, seed),
//! which is what makes every violation replayable from a few integers.

use vhc::case::*;
use vhc::item::mix64;
use vhc::ShapeInfo;

pub struct Gen<'s> {
    pub shapes: &'s [&'static ShapeInfo],
    /// interpreter-sized cases (Miri)
    pub small: bool,
    pub thorough: bool,
    /// generate cases with the thread-creation fault (plain builds only)
    pub spawn_faults: bool,
}

const ORDERED: [Term; 6] = [
    Term::CollectVec,
    Term::Collect,
    Term::IntoVec,
    Term::IntoSplitD,
    Term::IntoSplitL,
    Term::IntoFixed,
];
const INTO: [Term; 4] = [Term::IntoVec, Term::IntoSplitD, Term::IntoSplitL, Term::IntoFixed];
const REDUCE: [Term; 9] = [
    Term::Reduce,
    Term::Fold,
    Term::Sum,
    Term::Min,
    Term::Max,
    Term::MinBy,
    Term::MaxBy,
    Term::MinByKey,
    Term::MaxByKey,
];
const SHORT: [Term; 6] = [Term::Find, Term::First, Term::Any, Term::All, Term::FindIdx, Term::FirstIdx];
const ALL_SRC: [Src; 13] = [
    Src::VecOwned,
    Src::Slice,
    Src::Range,
    Src::IterExact,
    Src::IterUnknown,
    Src::Deque,
    Src::Cloned,
    Src::List,
    Src::BTree,
    Src::DequeRef,
    Src::Array,
    Src::ConIterVec,
    Src::SliceInto,
];
const OWNING: [Src; 8] = [
    Src::VecOwned,
    Src::IterExact,
    Src::IterUnknown,
    Src::Deque,
    Src::List,
    Src::BTree,
    Src::ConIterVec,
    Src::Cloned,
];
const CHUNKS: [usize; 12] = [1, 2, 3, 4, 5, 6, 7, 8, 9, 16, 64, 1000];

fn keep_spec(r: &mut Rng, len: usize, c: usize) -> Keep {
    let len = len.max(1) as u64;
    let c = c.max(1) as u64;
    match r.below(16) {
        0 | 1 => Keep::All,
        2 => Keep::Nothing,
        3 => Keep::Residue { m: c.max(2), r: r.below(c.max(2)) },
        4 => Keep::Residue { m: 2 + r.below(4), r: 0 },
        5 => Keep::NotResidue { m: c.max(2), r: r.below(c.max(2)) },
        6 => Keep::Prefix(r.below(len + 1)),
        7 => Keep::Suffix(r.below(len + 1)),
        8 => Keep::Density { d: 32, salt: r.next() },
        9 | 10 => Keep::Density { d: 128, salt: r.next() },
        11 => Keep::Density { d: 224, salt: r.next() },
        12 => {
            let k = 1 + r.below(4);
            Keep::Origins((0..k).map(|_| r.below(len)).collect())
        }
        13 | 14 => Keep::Blocks { block: c, phase: r.below(2) },
        _ => Keep::NotResidue { m: 2 + r.below(3), r: 1 },
    }
}

fn pred_spec(r: &mut Rng, len: usize, c: usize) -> Keep {
    let n = len.max(1) as u64;
    let c = c.max(1) as u64;
    match r.below(12) {
        0 => Keep::Nothing,
        1 => Keep::All,
        2 => Keep::Origins(vec![0]),
        3 => Keep::Origins(vec![n / 2]),
        4 => Keep::Origins(vec![n - 1]),
        5 => {
            // several in one chunk
            let b = r.below(n / c + 1) * c;
            Keep::Origins((0..c.min(3)).map(|k| (b + k).min(n - 1)).collect())
        }
        6 | 7 | 8 => {
            // several in different chunks
            let k = 2 + r.below(4);
            Keep::Origins((0..k).map(|_| r.below(n)).collect())
        }
        9 => Keep::Density { d: 24, salt: r.next() },
        10 => Keep::Suffix(r.below(n)),
        _ => Keep::Residue { m: 2 + r.below(5), r: r.below(2) },
    }
}

fn stage_specs(r: &mut Rng, shape: &str, len: usize, c: usize) -> Vec<StageSpec> {
    shape
        .chars()
        .map(|ch| {
            let kind = Kind::from_letter(ch);
            let keep = match kind {
                Kind::Filter | Kind::FilterMapO | Kind::FilterMapR => keep_spec(r, len, c),
                // a third of the flat_maps produce nothing for whole regions of the input
                Kind::FlatMap if r.chance(1, 3) => match r.below(5) {
                    0 => Keep::Suffix(r.below(len.max(1) as u64 + 1)),
                    1 => Keep::Prefix(r.below(len.max(1) as u64 + 1)),
                    2 => Keep::Blocks { block: (c.max(1) * (1 + r.below(4) as usize)) as u64, phase: r.below(2) },
                    3 => Keep::Origins((0..1 + r.below(3)).map(|_| r.below(len.max(1) as u64)).collect()),
                    _ => Keep::Density { d: 40, salt: r.next() },
                },
                _ => Keep::All,
            };
            let (fan_base, fan_var) = match kind {
                Kind::FlatMap => *[(0u8, 0u8), (1, 0), (2, 0), (0, 1), (0, 2), (0, 3), (1, 1), (1, 2), (0, 3), (1, 2)]
                    .get(r.below(10) as usize)
                    .unwrap_or(&(1, 1)),
                _ => (0, 0),
            };
            StageSpec {
                kind,
                salt: r.next() as u32,
                keep,
                fan_base,
                fan_var,
            }
        })
        .collect()
}

pub struct Opts<'o> {
    pub srcs: &'o [Src],
    pub terms: &'o [Term],
    /// weights for modes S, F, Q
    pub modes: (u64, u64, u64),
    pub max_len_s: usize,
    pub max_len_f: usize,
    pub shape_ok: &'o dyn Fn(&ShapeInfo) -> bool,
    pub nts: &'o [usize],
    pub force_exact: bool,
    pub strategies: &'o [Strategy],
    /// one in `growth_one_in` mode-S cases uses the "growth regime" (0 = never)
    pub growth_one_in: u64,
}

impl<'s> Gen<'s> {
    fn base(&self, r: &mut Rng, o: &Opts) -> Case {
        // mode
        let tot = o.modes.0 + o.modes.1 + o.modes.2;
        let m = r.below(tot.max(1));
        let mode = if m < o.modes.0 {
            Mode::S
        } else if m < o.modes.0 + o.modes.1 {
            Mode::F
        } else {
            Mode::Q
        };
        let term = r.pick(o.terms);
        // (src, shape)
        let mut info: &ShapeInfo = self.shapes[0];
        for _ in 0..200 {
            let cand = self.shapes[r.below(self.shapes.len() as u64) as usize];
            let src = Src::from_letter(cand.src);
            if !o.srcs.contains(&src) || !(o.shape_ok)(cand) {
                continue;
            }
            if term.needs_index() && !cand.has_index {
                continue;
            }
            if term == Term::Sum && cand.ref_elem {
                continue;
            }
            info = cand;
            break;
        }
        let src = Src::from_letter(info.src);
        let term = if (term.needs_index() && !info.has_index) || (term == Term::Sum && info.ref_elem) {
            Term::Count
        } else {
            term
        };
        let max_len = if self.small {
            10
        } else {
            match mode {
                Mode::S => o.max_len_s,
                _ => o.max_len_f,
            }
        };
        let len = match r.below(20) {
            0 | 1 => r.range(0, 3.min(max_len)),
            2..=11 => r.range(0, 40.min(max_len)),
            12..=17 => r.range(0, max_len.min(128)),
            18 => r.range(0, 300.min(max_len)),
            _ => r.range(0, max_len),
        };
        let len = if src == Src::Array { 8 } else { len };
        let nt = r.pick(o.nts);
        let nt = if self.small { nt.min(4) } else { nt };
        let c = r.pick(&CHUNKS);
        let c = if self.small { (c % 4) + 1 } else { c };
        let cs = if o.force_exact {
            Cs::Exact(c)
        } else {
            match r.below(10) {
                0 | 1 => Cs::Auto,
                2..=6 => Cs::Exact(c),
                _ => Cs::Min(c),
            }
        };
        let stages = stage_specs(r, info.shape, len, c);
        let linear_k = if src == Src::IterUnknown { 14 } else { r.range(2, 5) };
        // "growth regime": Min(1)/Auto chunks, many threads, enough input for workers spawned after the lag period to
        // get grown chunk sizes, so that chunk-size-1 workers and chunked workers coexist in one run
        let growth = mode == Mode::S && !o.force_exact && !self.small && o.growth_one_in > 0 && r.chance(1, o.growth_one_in);
        let (nt, cs, len, strategy) = if growth {
            let nt = r.pick(&[6usize, 8, 8, 16]);
            let cs = if r.chance(1, 2) { Cs::Min(1) } else { Cs::Auto };
            let len = if src == Src::Array { 8 } else { r.range(20, 72) };
            let st = r.pick(&[Strategy::LagGrow, Strategy::LagGrow, Strategy::LagGrow, Strategy::StarveOne, Strategy::SpawnerStarved, Strategy::Pct]);
            (nt, cs, len, st)
        } else {
            (nt, cs, len, r.pick(o.strategies))
        };
        let stages = if growth { stage_specs(r, info.shape, len, 4) } else { stages };
        let growth_pred = if growth && len >= 12 {
            let g0 = r.range(1, 6) as u64;
            Some(Keep::Origins(vec![g0, r.range(8, len - 1) as u64, r.range(8, len - 1) as u64, r.range(8, len - 1) as u64]))
        } else {
            None
        };
        let slow_source = mode == Mode::F && src.is_probe() && !self.small && r.chance(1, 4);
        let (len, nt) = if slow_source { (len.min(64), if nt == 0 || nt >= 5 { nt } else { r.pick(&[5usize, 6, 8, 16]) }) } else { (len, nt) };
        Case {
            seed: r.next(),
            src,
            len,
            shape: info.shape.to_string(),
            stages,
            term,
            pred: match growth_pred {
                Some(p) if r.chance(2, 3) => p,
                _ => pred_spec(r, len, c),
            },
            nt,
            cs,
            set_params: true,
            setters: vec![],
            pre_len: 0,
            pre_spare: 0,
            ties: r.chance(1, 2),
            linear_k,
            mode,
            strategy,
            sched_seed: r.next(),
            script: vec![],
            faults: vec![],
            endless: false,
            budget: 0,
            noise: r.below(3) as u8,
            val_seed: r.next(),
            probe_spin: if r.chance(1, 3) { r.below(300) as u32 } else { 0 },
            probe_sleep_us: if slow_source { r.range(20, 300) as u32 } else { 0 },
            pre_consumed: 0,
            spawn_fail: false,
        }
    }

    pub fn count(&self, prop: &str) -> u64 {
        let (q, t) = match prop {
            "C01" => (24_000, 400_000),
            "C02" => (80_000, 1_000_000),
            "C03" => (70_000, 800_000),
            "C04" => (50_000, 600_000),
            "C05" => (40_000, 500_000),
            "C06" => (80_000, 800_000),
            "C07" => (60_000, 600_000),
            "C08" => (60_000, 600_000),
            "C09" => (200_000, 2_000_000),
            "C10" => (80_000, 800_000),
            "C11" => (40_000, 500_000),
            "C12" => (self.c12_space().0, self.c12_space().1),
            "C13" => (60_000, 600_000),
            "C14" => (50_000, 600_000),
            "C15" => (30_000, 600_000),
            "C16" => (self.c16_space(), self.c16_space()),
            _ => (1000, 1000),
        };
        if self.thorough {
            t
        } else {
            q
        }
    }

    pub fn case_at(&self, prop: &str, idx: u64, seed: u64) -> Option<Case> {
        let tag = prop.bytes().fold(0u64, |a, b| a.wrapping_mul(131).wrapping_add(b as u64));
        let mut r = Rng::new(mix64(seed ^ tag.rotate_left(32)) ^ mix64(idx.wrapping_mul(0x9e37_79b9_7f4a_7c15)));
        let any_shape = |_: &ShapeInfo| true;
        let all_nts: [usize; 10] = [0, 2, 2, 3, 3, 4, 5, 6, 8, 16];
        let mut c = match prop {
            "C01" => self.base(
                &mut r,
                &Opts {
                    srcs: &ALL_SRC,
                    terms: &ORDERED,
                    modes: (5, 4, 1),
                    max_len_s: 64,
                    max_len_f: 3000,
                    shape_ok: &any_shape,
                    nts: &all_nts,
                    force_exact: false,
                    growth_one_in: 5,
                    strategies: &ALL_STRATEGIES,
                },
            ),
            "C02" => {
                let mut c = self.base(
                    &mut r,
                    &Opts {
                        srcs: &ALL_SRC,
                        terms: &SHORT,
                        modes: (7, 2, 1),
                        max_len_s: 64,
                        max_len_f: 3000,
                        shape_ok: &any_shape,
                        nts: &all_nts,
                        force_exact: false,
                        growth_one_in: 3,
                        strategies: &[
                            Strategy::Uniform,
                            Strategy::NewestFirst,
                            Strategy::SpawnerFirst,
                            Strategy::Pct,
                            Strategy::RoundRobin,
                            Strategy::Sticky,
                            Strategy::NewestStarved,
                        ],
                    },
                );
                if c.mode == Mode::S && r.chance(2, 3) {
                    c.cs = Cs::Exact(r.range(1, 6));
                }
                c
            }
            "C03" => {
                let mut c = self.base(
                    &mut r,
                    &Opts {
                        srcs: &ALL_SRC,
                        terms: &REDUCE,
                        modes: (5, 4, 1),
                        max_len_s: 64,
                        max_len_f: 3000,
                        shape_ok: &any_shape,
                        nts: &all_nts,
                        force_exact: false,
                        growth_one_in: 5,
                        strategies: &ALL_STRATEGIES,
                    },
                );
                // whole chunks that filter to nothing between non-empty ones
                if let Cs::Exact(x) | Cs::Min(x) = c.cs {
                    if r.chance(1, 2) {
                        for st in c.stages.iter_mut() {
                            if st.kind != Kind::Map && st.kind != Kind::FlatMap {
                                st.keep = Keep::Blocks { block: x as u64, phase: r.below(2) };
                            }
                        }
                    }
                }
                c
            }
            "C04" => self.base(
                &mut r,
                &Opts {
                    srcs: &ALL_SRC,
                    terms: &[Term::Count, Term::ForEach],
                    modes: (5, 4, 1),
                    max_len_s: 64,
                    max_len_f: 3000,
                    shape_ok: &any_shape,
                    nts: &all_nts,
                    force_exact: false,
                    growth_one_in: 6,
                    strategies: &ALL_STRATEGIES,
                },
            ),
            "C05" => {
                let mut c = self.base(
                    &mut r,
                    &Opts {
                        srcs: &[Src::IterExact, Src::IterUnknown, Src::IterExact, Src::IterUnknown, Src::VecOwned, Src::Slice, Src::Range, Src::Deque],
                        terms: &ALL_TERMS,
                        modes: (4, 5, 1),
                        max_len_s: 48,
                        max_len_f: 2000,
                        shape_ok: &any_shape,
                        nts: &all_nts,
                        force_exact: false,
                        growth_one_in: 6,
                        strategies: &ALL_STRATEGIES,
                    },
                );
                if c.mode == Mode::F && c.src.is_probe() {
                    c.probe_spin = r.below(600) as u32;
                }
                c
            }
            "C06" => {
                let map_only = |s: &ShapeInfo| s.shape.chars().all(|c| c == 'M');
                let pick_map_only = r.chance(1, 2);
                let mut c = self.base(
                    &mut r,
                    &Opts {
                        srcs: if pick_map_only { &[Src::IterUnknown, Src::IterUnknown, Src::IterExact, Src::VecOwned, Src::Range, Src::Slice, Src::Deque] } else { &ALL_SRC },
                        terms: &INTO,
                        modes: (3, 4, 3),
                        max_len_s: 48,
                        max_len_f: 2000,
                        shape_ok: if pick_map_only { &map_only } else { &any_shape },
                        nts: &all_nts,
                        force_exact: false,
                        growth_one_in: 8,
                        strategies: &ALL_STRATEGIES,
                    },
                );
                c.pre_len = match r.below(4) {
                    0 => r.range(1, 3),
                    1 => r.range(1, c.len.max(1)),
                    2 => c.len + r.range(1, 20),
                    _ => r.range(1, 40),
                };
                if self.small {
                    c.pre_len = c.pre_len.min(6);
                }
                c.pre_spare = if r.chance(1, 2) { 0 } else { r.range(0, 2 * c.len + 4) };
                if !self.small && r.chance(1, 150) {
                    // one worker pulls tens of thousands of consecutive positions before any other gets going
                    let shp = r.pick(&["", "M", "MM"]);
                    let srcs = [Src::VecOwned, Src::IterExact, Src::IterUnknown, Src::Range, Src::Slice];
                    let src = r.pick(&srcs);
                    if self.find(src, shp).is_some() {
                        c.src = src;
                        c.shape = shp.to_string();
                        c.stages = stage_specs(&mut r, shp, 100, 1);
                        c.len = r.range(16_500, 40_000);
                        c.mode = Mode::F;
                        c.noise = 3;
                        c.nt = r.pick(&[2usize, 3, 4]);
                        c.cs = if src == Src::IterUnknown && r.chance(1, 2) { Cs::Auto } else { Cs::Exact(1) };
                        c.pre_len = r.range(1, 30);
                        c.probe_spin = 0;
                        c.probe_sleep_us = 0;
                        c.linear_k = 14;
                    }
                }
                c
            }
            "C07" => self.base(
                &mut r,
                &Opts {
                    srcs: &ALL_SRC,
                    terms: &[Term::CollectX],
                    modes: (5, 4, 1),
                    max_len_s: 64,
                    max_len_f: 3000,
                    shape_ok: &any_shape,
                    nts: &all_nts,
                    force_exact: false,
                    growth_one_in: 6,
                    strategies: &ALL_STRATEGIES,
                },
            ),
            "C08" => {
                let mut c = self.base(
                    &mut r,
                    &Opts {
                        srcs: &ALL_SRC,
                        terms: &ALL_TERMS,
                        modes: (5, 4, 1),
                        max_len_s: 64,
                        max_len_f: 600,
                        shape_ok: &any_shape,
                        nts: &[1, 2, 2, 3, 3, 4, 5, 6, 7, 8, 9, 10, 11, 12, 13, 14, 15, 16],
                        force_exact: false,
                        growth_one_in: 8,
                        strategies: &[Strategy::SpawnerFirst, Strategy::SpawnerStarved, Strategy::Uniform, Strategy::Pct, Strategy::NewestFirst, Strategy::RoundRobin],
                    },
                );
                if c.mode == Mode::F {
                    c.noise = 2;
                }
                if r.chance(2, 3) {
                    // longer than the thread count and small chunks, so that the bound is approached
                    c.len = c.len.max(c.nt * 3);
                    c.cs = Cs::Exact(r.range(1, 3));
                }
                if r.chance(1, 5) && c.nt >= 2 && (!c.stages.is_empty() || c.src == Src::Range) {
                    // a closure panics on one of the first elements while the spawner may still be spawning: the
                    // bound holds on unwinding runs as well
                    c.len = c.len.max(c.nt * 4);
                    let st = if c.stages.is_empty() { ST_LIFT } else { 0u8 };
                    c.faults.push(Fault { stage: st, trigger: Trigger::OnId(r.below(3) << 12) });
                }
                c
            }
            "C09" => self.base(
                &mut r,
                &Opts {
                    srcs: &ALL_SRC,
                    terms: &ALL_TERMS,
                    modes: (0, 0, 1),
                    max_len_s: 64,
                    max_len_f: 300,
                    shape_ok: &any_shape,
                    nts: &[1],
                    force_exact: false,
                    growth_one_in: 0,
                    strategies: &[Strategy::Uniform],
                },
            ),
            "C10" => {
                let no_cuts = |s: &ShapeInfo| s.cuts.is_empty();
                let mut c = self.base(
                    &mut r,
                    &Opts {
                        srcs: &ALL_SRC,
                        terms: &SHORT,
                        modes: (7, 1, 2),
                        max_len_s: 64,
                        max_len_f: 400,
                        shape_ok: &no_cuts,
                        nts: &[2, 2, 3, 3, 4, 5, 6, 8],
                        force_exact: false,
                        growth_one_in: 0,
                        strategies: &ALL_STRATEGIES,
                    },
                );
                let endless = r.chance(1, 3) && !self.small;
                let cexact = r.range(1, 4);
                if c.mode != Mode::Q {
                    c.cs = Cs::Exact(cexact);
                }
                let nt = c.nt.max(1);
                // at least 20 * nt chunks of input after the match
                let tail = 20 * nt * cexact + 3 * cexact;
                let mhi = if r.chance(1, 2) { cexact } else { 40 };
                let m = r.range(0, mhi);
                if self.small {
                    c.len = c.len.max(8);
                } else {
                    c.len = m + 1 + tail;
                }
                // make (almost) every element reach the predicate, so that a match at a known place exists
                for st in c.stages.iter_mut() {
                    if matches!(st.kind, Kind::Filter | Kind::FilterMapO | Kind::FilterMapR) {
                        st.keep = if r.chance(1, 4) { Keep::NotResidue { m: 5, r: 3 } } else { Keep::All };
                    }
                    if st.kind == Kind::FlatMap {
                        st.fan_base = 1;
                        st.fan_var = r.below(2) as u8;
                    }
                }
                c.pred = match r.below(5) {
                    0 => Keep::Origins(vec![m as u64]),
                    1 => Keep::Origins(vec![m as u64, (m + 2 * cexact) as u64, (m + 7 * cexact + 1) as u64]),
                    2 => Keep::Suffix(m as u64),
                    3 => Keep::Origins(vec![m as u64, (c.len - 1) as u64]),
                    _ => Keep::Residue { m: (m + 2) as u64, r: (m % (m + 2)) as u64 },
                };
                if c.term == Term::All {
                    // all(p) stops at the first element for which p is false
                    c.pred = Keep::Prefix(m as u64);
                }
                if matches!(c.term, Term::First | Term::FirstIdx) {
                    // first() matches the first survivor: let the chain drop a prefix
                    if let Some(st) = c.stages.iter_mut().find(|s| matches!(s.kind, Kind::Filter | Kind::FilterMapO | Kind::FilterMapR)) {
                        st.keep = Keep::Suffix(m as u64);
                    }
                }
                // Min/Auto chunk growth: late workers (spawned after a lag period) hold grown chunks when the match
                // is found; long known-length input, so that "proportional to what remains" is far above the bound
                if c.mode == Mode::S && !self.small && !endless && r.chance(1, 3) && c.src.known_len() && c.src != Src::Array {
                    c.nt = r.pick(&[6usize, 8, 16]);
                    c.cs = if r.chance(1, 2) { Cs::Min(r.range(1, 4)) } else { Cs::Auto };
                    c.strategy = Strategy::LagGrow;
                    c.len = r.range(800, 2500);
                    let mm = r.range(40, 300) as u64;
                    let mut mm_override: Option<u64> = None;
                    c.pred = match c.term {
                        Term::All => Keep::Prefix(mm),
                        _ => Keep::Origins(vec![mm, mm + 500]),
                    };
                    if c.src == Src::ConIterVec || (r.chance(1, 2) && self.find(Src::ConIterVec, &c.shape).is_some()) {
                        // a concurrent iterator that was largely consumed before it became a Par: what was consumed
                        // before the run is not progress of the run
                        c.src = Src::ConIterVec;
                        // (no *_with_index here: for a partially consumed concurrent iterator the "position in the original
                        // source" is ambiguous, and the library's two modes disagree about it - see DESIGN.md 5.6)
                        c.term = match c.term {
                            Term::FindIdx => Term::Find,
                            Term::FirstIdx => Term::First,
                            t => t,
                        };
                        c.pre_consumed = r.range(c.len / 2, 2 * c.len);
                        c.len += c.pre_consumed;
                        let mm2 = mm + c.pre_consumed as u64;
                        c.pred = match c.term {
                            Term::All => Keep::Prefix(mm2),
                            _ => Keep::Origins(vec![mm2, mm2 + 500]),
                        };
                        mm_override = Some(mm2);
                    }
                    let mm = mm_override.unwrap_or(mm);
                    if matches!(c.term, Term::First | Term::FirstIdx) {
                        if let Some(st) = c.stages.iter_mut().find(|s| matches!(s.kind, Kind::Filter | Kind::FilterMapO | Kind::FilterMapR)) {
                            st.keep = Keep::Suffix(mm);
                        }
                    }
                }
                if endless && c.src.is_probe() {
                    c.src = Src::IterUnknown;
                    if self.shapes.iter().any(|s| s.src == 'U' && s.shape == c.shape) {
                        c.endless = true;
                        c.budget = m + 1 + (nt + 2) * 2 * cexact.max(1) + 64;
                        c.len = c.budget;
                    }
                }
                c
            }
            "C11" => {
                let mut c = self.base(
                    &mut r,
                    &Opts {
                        srcs: &[Src::IterExact, Src::IterExact, Src::IterUnknown, Src::VecOwned, Src::Slice, Src::Range, Src::Deque],
                        terms: &ALL_TERMS,
                        modes: (6, 4, 0),
                        max_len_s: 96,
                        max_len_f: 2000,
                        shape_ok: &any_shape,
                        nts: &[0, 2, 3, 4, 6, 6, 7, 8, 8, 16],
                        force_exact: true,
                        growth_one_in: 0,
                        strategies: &[Strategy::SpawnerStarved, Strategy::SpawnerStarved, Strategy::NewestStarved, Strategy::Uniform, Strategy::Sticky, Strategy::Pct, Strategy::RoundRobin, Strategy::OldestFirst],
                    },
                );
                if let Cs::Exact(x) = c.cs {
                    if x > 64 {
                        c.cs = Cs::Exact(r.range(1, 9));
                    }
                }
                if !self.small && r.chance(1, 60) {
                    c.cs = Cs::Exact(r.pick(&[(1usize << 20) + 1, (1 << 20) + 4096, 1 << 20, 3 << 19]));
                    c.nt = r.pick(&[2usize, 3]);
                    c.len = c.len.min(64);
                }
                if r.chance(1, 2) {
                    if let Cs::Exact(x) = c.cs {
                        // long enough for workers to be spawned after a lag period with progress made
                        c.len = c.len.max((x * 3 * c.nt.max(2)).min(if c.mode == Mode::S { 160 } else { 4000 }));
                    }
                }
                c
            }
            "C12" => return self.c12_case(idx, &mut r),
            "C13" => {
                let mut c = self.base(
                    &mut r,
                    &Opts {
                        srcs: &OWNING,
                        terms: &ALL_TERMS,
                        modes: (4, 4, 2),
                        max_len_s: 64,
                        max_len_f: 2000,
                        shape_ok: &any_shape,
                        nts: &all_nts,
                        force_exact: false,
                        growth_one_in: 6,
                        strategies: &ALL_STRATEGIES,
                    },
                );
                if c.term.is_collect_into() && r.chance(2, 3) {
                    c.pre_len = r.range(1, 12);
                }
                if c.term.is_short_circuit() && r.chance(1, 2) {
                    // a match early in the input: the remainder is dropped by the early exit
                    c.pred = Keep::Origins(vec![r.below((c.len as u64 / 4).max(1))]);
                }
                c
            }
            "C14" => {
                let mut c = self.base(
                    &mut r,
                    &Opts {
                        srcs: &ALL_SRC,
                        terms: &ALL_TERMS,
                        modes: (4, 5, 1),
                        max_len_s: 40,
                        max_len_f: 200,
                        shape_ok: &any_shape,
                        nts: &all_nts,
                        force_exact: false,
                        growth_one_in: 6,
                        strategies: &ALL_STRATEGIES,
                    },
                );
                c.len = c.len.max(1);
                if c.term.is_collect_into() && r.chance(1, 2) {
                    c.pre_len = r.range(1, 8);
                }
                // candidate closures for the fault
                let mut stages: Vec<u8> = (0..c.stages.len() as u8).collect();
                if c.src == Src::Range {
                    stages.push(ST_LIFT);
                }
                match c.term {
                    t if t.uses_pred() => stages.push(ST_PRED),
                    Term::Reduce | Term::Fold | Term::Sum => stages.push(ST_OP),
                    Term::ForEach => stages.push(ST_BODY),
                    Term::MinBy | Term::MaxBy => stages.push(ST_CMP),
                    Term::MinByKey | Term::MaxByKey => stages.push(ST_KEY),
                    _ => {}
                }
                if stages.is_empty() {
                    // nothing can panic in this pipeline: give it a map
                    return None;
                }
                let nf = if r.chance(1, 4) { 2 } else { 1 };
                for _ in 0..nf {
                    let st = r.pick(&stages);
                    let trig = if st < 16 || st == ST_LIFT || st == ST_PRED || st == ST_BODY {
                        if r.chance(2, 3) {
                            Trigger::OnId((r.below(c.len as u64)) << 12)
                        } else {
                            Trigger::OnCall(r.below((c.len as u64).max(1)))
                        }
                    } else {
                        Trigger::OnCall(r.below((c.len as u64 / 2).max(1)))
                    };
                    c.faults.push(Fault { stage: st, trigger: trig });
                }
                c
            }
            "C15" => return self.c15_case(idx, &mut r),
            "C16" => return self.c16_case(idx),
            _ => return None,
        };
        if c.term == Term::Sum && self.find(c.src, &c.shape).map(|s| s.ref_elem).unwrap_or(false) {
            c.term = Term::Reduce;
        }
        if self.spawn_faults
            && matches!(prop, "C01" | "C03" | "C04" | "C06" | "C07")
            && c.mode != Mode::Q
            && c.faults.is_empty()
            && c.len <= 200
            && r.chance(1, 40)
        {
            c.spawn_fail = true;
            c.noise = 0;
        }
        if c.src == Src::Array {
            // the array source has a fixed length, whatever the profile did to `len`
            c.len = 8;
            c.endless = false;
            for f in c.faults.iter_mut() {
                if let Trigger::OnId(id) = f.trigger {
                    f.trigger = Trigger::OnId(((id >> 12) % 8) << 12);
                }
            }
        }
        Some(c)
    }

    /// a small variant of a generated case for the bounded-exhaustive schedule exploration
    pub fn small_case_at(&self, prop: &str, idx: u64, seed: u64) -> Option<Case> {
        let mut c = self.case_at(prop, idx, seed)?;
        if c.endless || !c.setters.is_empty() {
            return None;
        }
        let mut r = Rng::new(mix64(seed ^ idx.wrapping_mul(77) ^ 0xE8_9107E));
        let fanout = c.stages.iter().filter(|s| s.kind == Kind::FlatMap).count();
        let max_len = match (c.stages.len(), fanout) {
            (0..=1, 0) => 8,
            (_, 0) => 6,
            (_, 1) => 5,
            _ => 4,
        };
        if c.src == Src::Array {
            return None;
        }
        c.len = r.range(2, max_len);
        c.nt = r.range(2, 3);
        c.cs = match r.below(4) {
            0 => Cs::Exact(1),
            1 => Cs::Exact(2),
            2 => Cs::Exact(3),
            _ => Cs::Min(1),
        };
        c.mode = Mode::S;
        c.strategy = Strategy::Script;
        c.script = vec![];
        c.noise = 0;
        c.probe_spin = 0;
        c.pre_len = c.pre_len.min(3);
        for st in c.stages.iter_mut() {
            st.fan_base = st.fan_base.min(1);
            st.fan_var = st.fan_var.min(1);
        }
        // faults / predicates / filters refer to positions: keep them inside the shrunk input
        for f in c.faults.iter_mut() {
            f.trigger = match f.trigger {
                Trigger::OnId(id) => Trigger::OnId(((id >> 12) % c.len as u64) << 12),
                Trigger::OnCall(k) => Trigger::OnCall(k % c.len as u64),
            };
        }
        if let Keep::Origins(v) = &mut c.pred {
            for o in v.iter_mut() {
                *o %= c.len as u64;
            }
        }
        Some(c)
    }

    pub fn find(&self, src: Src, shape: &str) -> Option<&'static ShapeInfo> {
        self.shapes.iter().copied().find(|s| s.src == src.letter() && s.shape == shape)
    }

    // ---- C12: exhaustive single setters, pairs exhaustive in thorough

    const SETTER_VALUES: [Setter; 12] = [
        Setter::NtFrom(0),
        Setter::NtFrom(1),
        Setter::NtFrom(2),
        Setter::NtFrom(7),
        Setter::NtAuto,
        Setter::Nt(3),
        Setter::CsFrom(0),
        Setter::CsFrom(1),
        Setter::CsFrom(7),
        Setter::CsAuto,
        Setter::Cs(Cs::Exact(4)),
        Setter::Cs(Cs::Min(5)),
    ];

    fn c12_singles(&self) -> u64 {
        self.shapes.iter().map(|s| (s.shape.len() as u64 + 1) * 12).sum::<u64>() + self.shapes.len() as u64
    }

    fn c12_pairs(&self) -> u64 {
        self.shapes
            .iter()
            .map(|s| {
                let p = s.shape.len() as u64 + 1;
                (p * (p + 1) / 2) * 144
            })
            .sum()
    }

    pub fn c12_space(&self) -> (u64, u64) {
        let s = self.c12_singles();
        (s + 60_000, s + self.c12_pairs())
    }

    fn c12_base(&self, info: &ShapeInfo, r: &mut Rng) -> Case {
        let len = if info.src == 'A' { 8 } else { r.range(0, 9) };
        Case {
            seed: r.next(),
            src: Src::from_letter(info.src),
            len,
            shape: info.shape.to_string(),
            stages: stage_specs(r, info.shape, len, 2),
            term: r.pick(&[Term::Count, Term::CollectVec, Term::Reduce, Term::First]),
            pred: Keep::All,
            nt: 0,
            cs: Cs::Auto,
            set_params: r.chance(1, 2),
            setters: vec![],
            pre_len: 0,
            pre_spare: 0,
            ties: false,
            linear_k: 14,
            mode: Mode::F,
            strategy: Strategy::Uniform,
            sched_seed: 0,
            script: vec![],
            faults: vec![],
            endless: false,
            budget: 0,
            noise: 0,
            val_seed: r.next(),
            probe_spin: 0,
            probe_sleep_us: 0,
            pre_consumed: 0,
            spawn_fail: false,
        }
    }

    fn c12_case(&self, idx: u64, r: &mut Rng) -> Option<Case> {
        let singles = self.c12_singles();
        let mut i = idx;
        if i < singles {
            for info in self.shapes {
                let n = (info.shape.len() as u64 + 1) * 12 + 1;
                if i < n {
                    let mut c = self.c12_base(info, r);
                    if c.set_params {
                        c.nt = r.pick(&[0, 1, 2, 5]);
                        c.cs = r.pick(&[Cs::Auto, Cs::Exact(3), Cs::Min(2)]);
                    }
                    if i > 0 {
                        let j = i - 1;
                        c.setters.push(((j / 12) as usize, Self::SETTER_VALUES[(j % 12) as usize]));
                    }
                    return Some(c);
                }
                i -= n;
            }
            return None;
        }
        i -= singles;
        if self.thorough {
            for info in self.shapes {
                let p = info.shape.len() as u64 + 1;
                let npos = p * (p + 1) / 2;
                let n = npos * 144;
                if i < n {
                    let mut c = self.c12_base(info, r);
                    let pos_idx = i / 144;
                    let v = i % 144;
                    // decode position pair p1 <= p2
                    let mut k = 0;
                    let mut pp = (0usize, 0usize);
                    'o: for a in 0..p {
                        for b in a..p {
                            if k == pos_idx {
                                pp = (a as usize, b as usize);
                                break 'o;
                            }
                            k += 1;
                        }
                    }
                    c.setters.push((pp.0, Self::SETTER_VALUES[(v / 12) as usize]));
                    c.setters.push((pp.1, Self::SETTER_VALUES[(v % 12) as usize]));
                    return Some(c);
                }
                i -= n;
            }
            None
        } else {
            // sampled pairs / triples
            let info = self.shapes[r.below(self.shapes.len() as u64) as usize];
            let mut c = self.c12_base(info, r);
            let p = info.shape.len() + 1;
            let k = r.range(2, 3);
            let mut pos: Vec<usize> = (0..k).map(|_| r.range(0, p - 1)).collect();
            pos.sort();
            for q in pos {
                c.setters.push((q, r.pick(&Self::SETTER_VALUES)));
            }
            Some(c)
        }
    }

    // ---- C15: (len, threads, chunk) grid, each case executed under cfg and under num_threads(1)

    fn c15_case(&self, idx: u64, r: &mut Rng) -> Option<Case> {
        const PIPES: [&str; 8] = ["", "M", "F", "MF", "X", "O", "XF", "OF"];
        const SRCS: [Src; 4] = [Src::VecOwned, Src::IterUnknown, Src::IterExact, Src::Range];
        const NTS: [usize; 10] = [0, 1, 2, 3, 4, 5, 6, 8, 16, 64];
        let terms: [Term; 16] = [
            Term::CollectVec,
            Term::Collect,
            Term::IntoVec,
            Term::IntoSplitD,
            Term::IntoFixed,
            Term::CollectX,
            Term::Count,
            Term::ForEach,
            Term::Reduce,
            Term::Fold,
            Term::Min,
            Term::MaxByKey,
            Term::Find,
            Term::First,
            Term::Any,
            Term::All,
        ];
        // dense part of the grid is enumerated by index; beyond it, sampled long inputs
        let len = if idx % 32 == 31 && !self.small {
            *[100usize, 255, 256, 257, 1000, 1023, 4096, 4097, 10_000, 65_537, 70_000]
                .get(r.below(11) as usize)
                .unwrap_or(&100)
        } else {
            (idx / 8 % 34) as usize
        };
        let len = if self.small { len % 9 } else { len };
        let nt = NTS[(idx / (8 * 34) % 10) as usize];
        let cvals: [usize; 16] = [1, 2, 3, 4, 5, 6, 8, 16, len.saturating_sub(1).max(1), len.max(1), len + 1, 64, 1000, 1 << 20, 7, 33];
        let cv = cvals[r.below(16) as usize];
        let cs = match r.below(7) {
            0 => Cs::Auto,
            1..=3 => Cs::Exact(cv),
            _ => Cs::Min(cv),
        };
        // a quarter of the grid runs under the deterministic scheduler with the directed strategies: what the
        // spawning thread sees after a lag period (little, nothing or much left) decides the chunk sizes of late workers
        let sched = !self.small && idx % 4 == 1;
        let (len, nt, cs) = if sched {
            let nt = *[5usize, 6, 8, 10, 16, 64].get(r.below(6) as usize).unwrap_or(&8);
            let eff = nt.min(16);
            let len = match r.below(3) {
                0 => r.range(eff.saturating_sub(4).max(1), eff + 6),
                1 => r.range(eff, 3 * eff),
                _ => r.range(20, 90),
            };
            let cs = match r.below(4) {
                0 | 1 => Cs::Auto,
                2 => Cs::Min(r.range(1, 4)),
                _ => Cs::Exact(r.range(1, 4)),
            };
            (len, nt, cs)
        } else {
            (len, nt, cs)
        };
        let shape = PIPES[r.below(8) as usize];
        let src = SRCS[r.below(4) as usize];
        // the dependency serialises next() of iterator sources with a spin lock: tiny chunks on long inputs with many
        // threads cost tens of seconds per run (a cost pathology, not part of the property)
        let cs = if src.is_probe() && len > 2000 {
            match cs {
                Cs::Auto => Cs::Min(64),
                Cs::Exact(x) => Cs::Exact(x.max(64)),
                Cs::Min(x) => Cs::Min(x.max(64)),
            }
        } else {
            cs
        };
        let info = self.find(src, shape)?;
        let term = terms[r.below(16) as usize];
        Some(Case {
            seed: r.next(),
            src,
            len,
            shape: info.shape.to_string(),
            stages: stage_specs(r, info.shape, len, cv.min(64)),
            term,
            pred: pred_spec(r, len, cv.min(64)),
            nt,
            cs,
            set_params: true,
            setters: vec![],
            pre_len: if term.is_collect_into() { *[0usize, 1, 3, 10, 29, 31, 45, 60].get(r.below(8) as usize).unwrap_or(&3) } else { 0 },
            pre_spare: 0,
            ties: false,
            linear_k: 14,
            mode: if sched { Mode::S } else { Mode::F },
            strategy: if sched {
                r.pick(&[Strategy::LagGrow, Strategy::LagGrow, Strategy::StarveOne, Strategy::SpawnerStarved, Strategy::Uniform, Strategy::Pct])
            } else {
                Strategy::Uniform
            },
            sched_seed: r.next(),
            script: vec![],
            faults: vec![],
            endless: false,
            budget: 0,
            noise: 0,
            val_seed: r.next(),
            probe_spin: 0,
            probe_sleep_us: 0,
            pre_consumed: 0,
            spawn_fail: false,
        })
    }

    // ---- C16: every pipeline (all type x transformation transitions) x {plain, num_threads(1) set last}

    pub fn c16_space(&self) -> u64 {
        self.shapes.len() as u64 * 9 * 4
    }

    fn c16_case(&self, idx: u64) -> Option<Case> {
        // four groups of six terminals each, so that every one of the 24 terminals is run under every shape and every
        // parameter variant (a terminal that replaces the parameters in effect, seeded defect C16-d, is visible only there)
        let inner = self.shapes.len() as u64 * 9;
        let group = (idx / inner) as usize;
        if group >= 4 {
            return None;
        }
        let idx = idx % inner;
        let info = self.shapes.get((idx / 9) as usize)?;
        let variant9 = idx % 9;
        let variant = variant9 % 6;
        let mut r = Rng::new(idx ^ 0xC16);
        let len = if info.src == 'A' { 8 } else { 12 };
        let depth = info.shape.len();
        let mut c = Case {
            seed: r.next(),
            src: Src::from_letter(info.src),
            len,
            shape: info.shape.to_string(),
            stages: stage_specs(&mut r, info.shape, len, 2),
            term: [
                [Term::CollectVec, Term::Count, Term::Reduce, Term::First, Term::CollectX, Term::ForEach],
                [Term::All, Term::Any, Term::Find, Term::FindIdx, Term::FirstIdx, Term::Sum],
                [Term::Collect, Term::IntoVec, Term::IntoSplitD, Term::IntoFixed, Term::Fold, Term::Min],
                [Term::Max, Term::MinBy, Term::MaxBy, Term::MinByKey, Term::MaxByKey, Term::IntoSplitL],
            ][group][variant as usize],
            pred: Keep::All,
            nt: if variant % 2 == 0 { 3 } else { 0 },
            cs: if variant < 3 { Cs::Exact(2) } else { Cs::Auto },
            set_params: variant != 5,
            setters: vec![],
            pre_len: 0,
            pre_spare: 0,
            ties: false,
            linear_k: 14,
            mode: Mode::F,
            strategy: Strategy::Uniform,
            sched_seed: 0,
            script: vec![],
            faults: vec![],
            endless: false,
            budget: 0,
            noise: 0,
            val_seed: r.next(),
            probe_spin: 0,
            probe_sleep_us: 0,
            pre_consumed: 0,
            spawn_fail: false,
        };
        // filters that keep most elements, so that downstream stages have something to (not) do
        for st in c.stages.iter_mut() {
            if st.kind != Kind::Map && st.kind != Kind::FlatMap {
                st.keep = Keep::NotResidue { m: 4, r: 1 };
            }
            if st.kind == Kind::FlatMap {
                st.fan_base = 1;
                st.fan_var = 1;
            }
        }
        if variant9 < 6 && (variant == 1 || variant == 4) {
            // num_threads(1) set last: the parameters in effect at the terminal call
            c.setters.push((depth, Setter::Nt(1)));
        }
        if variant9 >= 6 {
            // a sequence of settings: sequential, then a chunk size, then parallel again (at spread positions): the
            // terminal must run under the last values, whatever was in effect in between
            let p1 = 0;
            let p2 = depth / 2;
            let p3 = depth;
            let (a, b, d) = match variant9 {
                6 => (Setter::Nt(1), Setter::Cs(Cs::Exact(5)), Setter::Nt(3)),
                7 => (Setter::NtFrom(1), Setter::Cs(Cs::Min(4)), Setter::NtAuto),
                _ => (Setter::Cs(Cs::Exact(2)), Setter::Nt(1), Setter::Nt(4)),
            };
            c.setters.push((p1, a));
            c.setters.push((p2, b));
            c.setters.push((p3, d));
        }
        Some(c)
    }
}
