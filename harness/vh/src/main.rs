//! vh: the harness binary.  `vh run` executes one shard of a property's case space and writes a JSON report;
//! `vh replay` re-executes a single case verbosely.

mod exec;
mod gen;
mod oracle;
mod tables;

use exec::Exec;
use std::collections::{HashMap, HashSet};
use std::io::{Seek, Write};
use vhc::case::*;
use vhc::ctx::*;
use vhc::drive::Obs;
use vhc::item::mix64;

struct Args {
    cmd: String,
    kv: HashMap<String, String>,
    flags: HashSet<String>,
}

fn parse_args() -> Args {
    let mut it = std::env::args().skip(1);
    let cmd = it.next().unwrap_or_else(|| "help".into());
    let mut kv = HashMap::new();
    let mut flags = HashSet::new();
    let rest: Vec<String> = it.collect();
    let mut i = 0;
    while i < rest.len() {
        let a = &rest[i];
        if let Some(k) = a.strip_prefix("--") {
            if i + 1 < rest.len() && !rest[i + 1].starts_with("--") {
                kv.insert(k.to_string(), rest[i + 1].clone());
                i += 2;
            } else {
                flags.insert(k.to_string());
                i += 1;
            }
        } else {
            i += 1;
        }
    }
    Args { cmd, kv, flags }
}

impl Args {
    fn get(&self, k: &str, d: &str) -> String {
        self.kv.get(k).cloned().unwrap_or_else(|| d.to_string())
    }
    fn num(&self, k: &str, d: u64) -> u64 {
        self.kv.get(k).and_then(|s| s.parse().ok()).unwrap_or(d)
    }
}

fn prop_static(p: &str) -> &'static str {
    const PROPS: [&str; 16] = [
        "C01", "C02", "C03", "C04", "C05", "C06", "C07", "C08", "C09", "C10", "C11", "C12", "C13", "C14", "C15", "C16",
    ];
    PROPS.iter().copied().find(|x| *x == p).unwrap_or("C00")
}

fn obs_canon(o: &Obs) -> Obs {
    match o {
        Obs::Bag(v) => {
            let mut v = v.clone();
            v.sort();
            Obs::Bag(v)
        }
        Obs::Agg(Some(a)) => {
            // the parenthesisation may differ between configurations; contributions may not
            let mut a = a.clone();
            a.ids.sort();
            a.term = 0;
            Obs::Agg(Some(a))
        }
        o => o.clone(),
    }
}

fn ev_json(slot: usize, e: &Ev) -> String {
    let kind = match e.kind {
        K_CALL => "call",
        K_RET => "ret",
        K_PULL => "pull",
        K_WBEGIN => "worker-begin",
        K_WEND => "worker-end",
        K_RUNBEGIN => "run-begin",
        K_SPAWNER => "spawner",
        K_RUNEND => "run-end",
        _ => "?",
    };
    let what = match e.kind {
        K_SPAWNER => ["before-spawn-decision", "after-lag", "before-final-spawn", "spawner-waits"]
            .get(e.stage as usize)
            .unwrap_or(&"?")
            .to_string(),
        K_RUNBEGIN => format!("max_threads={} chunk={}({})", e.a, e.b, if e.stage == 1 { "exact" } else { "min" }),
        K_WBEGIN => format!("chunk={}", e.a),
        K_WEND | K_RUNEND => String::new(),
        K_PULL => "source.next()".to_string(),
        _ => stage_name(e.stage),
    };
    format!(
        "{{\"seq\":{},\"thread\":{},\"kind\":\"{}\",\"what\":{},\"arg\":\"{:#x}\",\"aux\":{}}}",
        e.seq,
        slot,
        kind,
        jstr(&what),
        e.a,
        if e.b > (1 << 53) { 0 } else { e.b }
    )
}

fn sample_json(e: &Exec, idx: u64) -> String {
    let mut evs: Vec<(usize, Ev)> = vec![];
    for (slot, _, v) in &e.events {
        for x in v {
            evs.push((*slot, *x));
        }
    }
    evs.sort_by_key(|x| x.1.seq);
    let trimmed: Vec<String> = evs.iter().take(40).map(|(s, x)| ev_json(*s, x)).collect();
    format!(
        "{{\"idx\":{},\"case\":{},\"observed\":{},\"threads\":{},\"events_total\":{},\"schedule_picks\":{},\"first_events\":[{}]}}",
        idx,
        jstr(&e.case.describe()),
        jstr(&{
            let s = format!("{:?}", e.obs);
            if s.len() > 300 {
                format!("{}…", &s[..300])
            } else {
                s
            }
        }),
        e.events.len(),
        evs.len(),
        jstr(&format!("{:?}", e.picks.iter().take(60).collect::<Vec<_>>())),
        trimmed.join(",")
    )
}

struct Stats {
    evaluations: u64,
    by_mode: [u64; 3],
    nontrivial: u64,
    distinct: HashSet<u64>,
    signatures: HashSet<u64>,
    events: u64,
    calls: u64,
    multi_worker: u64,
    inconclusive: u64,
    inconclusive_msgs: Vec<String>,
    extra: HashMap<&'static str, u64>,
    skipped: u64,
}

fn bump(m: &mut HashMap<&'static str, u64>, k: &'static str, n: u64) {
    *m.entry(k).or_insert(0) += n;
}

fn config_class(c: &Case) -> u64 {
    let mut h = 0xabcdu64;
    for b in c.shape.bytes() {
        h = mix64(h ^ b as u64);
    }
    h = mix64(h ^ c.src.letter() as u64);
    h = mix64(h ^ c.term as u64);
    h = mix64(h ^ c.nt as u64);
    h = mix64(
        h ^ match c.cs {
            Cs::Auto => 0,
            Cs::Exact(x) => 1 + 2 * x as u64,
            Cs::Min(x) => 2 + 2 * x as u64,
        },
    );
    h = mix64(h ^ c.len as u64);
    h = mix64(h ^ c.pre_len as u64);
    for s in &c.setters {
        h = mix64(h ^ s.0 as u64 ^ mix64(format!("{:?}", s.1).len() as u64));
    }
    for f in &c.faults {
        h = mix64(h ^ f.stage as u64 ^ mix64(match f.trigger {
            Trigger::OnId(i) => i,
            Trigger::OnCall(k) => k | (1 << 60),
        }));
    }
    h
}

/// per-property rule for "this execution was non-trivial"
fn nontrivial(prop: &str, e: &Exec, st: &mut Stats) -> bool {
    let workers = e.active_workers();
    let c = &e.case;
    match prop {
        "C09" => c.len >= 2 && e.calls().len() >= 2,
        "C12" => !c.setters.is_empty() || c.set_params,
        "C16" => !c.stages.is_empty(),
        "C14" => {
            if e.injected > 0 {
                bump(&mut st.extra, "faults_fired", 1);
                if e.obs.is_err() {
                    bump(&mut st.extra, "panics_propagated", 1);
                }
                if workers >= 2 {
                    bump(&mut st.extra, "faults_with_2plus_active_workers", 1);
                }
                true
            } else {
                false
            }
        }
        "C15" => c.len >= 1,
        "C13" => {
            bump(&mut st.extra, "items_born", e.drops.born);
            bump(&mut st.extra, "items_dropped", e.drops.dropped);
            e.drops.born > e.ctx_owned && (workers >= 2 || c.mode == Mode::Q)
        }
        "C08" => {
            let n = if c.mode == Mode::Q { 1 } else { c.nt };
            if n > 0 && e.max_live_workers == n as i64 {
                bump(&mut st.extra, "bound_reached_live_workers", 1);
            }
            if n > 0 && e.max_active == n as i64 {
                bump(&mut st.extra, "bound_reached_active_closures", 1);
            }
            n >= 1 && (workers >= 2 || n == 1)
        }
        "C02" => {
            let rets = e.rets();
            let want = if c.term == Term::All { 0 } else { 1 };
            let mut finders: Vec<(usize, u64)> = vec![];
            for r in rets.iter().filter(|r| r.stage == ST_PRED && r.b == want) {
                if !finders.iter().any(|f| f.0 == r.slot) {
                    finders.push((r.slot, r.id >> 12));
                }
            }
            if finders.len() >= 2 {
                bump(&mut st.extra, "runs_with_2plus_threads_finding_a_match", 1);
                // spawn order (slot order) differs from chunk order
                let mut by_slot = finders.clone();
                by_slot.sort();
                if by_slot.windows(2).any(|w| w[1].1 < w[0].1) {
                    bump(&mut st.extra, "of_which_spawn_order_differs_from_position_order", 1);
                }
            }
            workers >= 2 || c.mode == Mode::Q
        }
        "C10" => {
            if let Some(m) = oracle::match_event(e) {
                bump(&mut st.extra, "runs_with_a_match_event", 1);
                let post = e.calls().iter().filter(|k| k.seq > m.seq && k.slot != m.slot).count() as u64;
                bump(&mut st.extra, "post_match_evaluations_by_other_threads", post);
                if c.endless {
                    bump(&mut st.extra, "endless_source_runs_terminated", 1);
                }
                workers >= 2 || c.mode == Mode::Q
            } else {
                false
            }
        }
        "C11" => {
            let pulls: u64 = e.events.iter().map(|(_, _, v)| v.iter().filter(|x| x.kind == K_PULL).count() as u64).sum();
            bump(&mut st.extra, "source_next_calls_observed", pulls);
            let spawned_after_lag = e
                .events
                .iter()
                .flat_map(|(_, _, v)| v.iter())
                .any(|x| x.kind == K_SPAWNER && x.stage == 1);
            if spawned_after_lag {
                bump(&mut st.extra, "runs_reaching_the_post_lag_path", 1);
            }
            workers >= 2
        }
        _ => workers >= 2 || c.mode == Mode::Q,
    }
}

/// produces the cases of a shard: either one per index, or (bounded-exhaustive schedule exploration) for each
/// index a small base case executed under every scheduler script with at most `bound` preemptions
struct Feeder {
    indices: std::collections::VecDeque<u64>,
    explore: bool,
    cur: Option<(u64, Case)>,
    stack: Vec<Vec<u8>>,
    runs: u64,
    complete: bool,
    bound: usize,
    max_runs: u64,
    fixed_script: Option<Vec<u8>>,
}

const EXPLORE_DEPTH: usize = 48;

impl Feeder {
    fn next(&mut self, g: &gen::Gen, prop: &str, seed: u64, st: &mut Stats) -> Option<(u64, Case)> {
        if !self.explore {
            loop {
                let idx = self.indices.pop_front()?;
                match g.case_at(prop, idx, seed) {
                    Some(c) => return Some((idx, c)),
                    None => st.skipped += 1,
                }
            }
        }
        loop {
            if let Some((idx, base)) = &self.cur {
                if self.runs >= self.max_runs && !self.stack.is_empty() {
                    self.complete = false;
                    self.stack.clear();
                }
                if let Some(script) = self.stack.pop() {
                    let mut c = base.clone();
                    c.script = script;
                    self.runs += 1;
                    return Some((*idx, c));
                }
                // this base case is finished
                bump(&mut st.extra, "explored_configurations", 1);
                if self.complete {
                    bump(&mut st.extra, "explored_configurations_complete_within_bound", 1);
                }
                bump(&mut st.extra, "explored_schedules", self.runs);
                self.cur = None;
            }
            let idx = self.indices.pop_front()?;
            match g.small_case_at(prop, idx, seed) {
                Some(c) => {
                    self.cur = Some((idx, c));
                    self.stack = vec![self.fixed_script.clone().unwrap_or_default()];
                    self.runs = 0;
                    self.complete = true;
                }
                None => st.skipped += 1,
            }
        }
    }

    fn feedback(&mut self, e: &Exec, _st: &mut Stats) {
        if !self.explore || self.fixed_script.is_some() || e.case.strategy != Strategy::Script {
            return;
        }
        let d = &e.decisions;
        let from = e.case.script.len();
        if d.len() > EXPLORE_DEPTH {
            self.complete = false;
        }
        let taken: Vec<u8> = d.iter().map(|x| x.0).collect();
        let base_nonzero = taken.iter().take(from).filter(|&&x| x != 0).count();
        if base_nonzero >= self.bound {
            return;
        }
        for k in from..d.len().min(EXPLORE_DEPTH) {
            for c in 1..d[k].1 {
                let mut child = taken[..k].to_vec();
                child.push(c);
                self.stack.push(child);
            }
        }
    }
}

fn main() {
    let args = parse_args();
    let shapes = tables::all_shapes();
    match args.cmd.as_str() {
        "list-shapes" => {
            for s in &shapes {
                println!(
                    "{} [{}] final={} cuts={:?} index={} ref={} steps={:?}",
                    s.src, s.shape, s.final_type, s.cuts, s.has_index, s.ref_elem, s.labels
                );
            }
        }
        "run" | "replay" => run(&args, &shapes),
        _ => {
            eprintln!("usage: vh run|replay --prop Cxx --tier quick|thorough --seed N [--shard i --nshards n] [--idx I] --out FILE [--small] [--time-limit S] [--max-cases K]");
            std::process::exit(2);
        }
    }
}

fn run(args: &Args, shapes: &[&'static vhc::ShapeInfo]) {
    let prop = prop_static(&args.get("prop", "C01"));
    let thorough = args.get("tier", "quick") == "thorough";
    let seed = args.num("seed", 0);
    let shard = args.num("shard", 0);
    let nshards = args.num("nshards", 1).max(1);
    let small = args.flags.contains("small");
    let replay = args.cmd == "replay";
    let out = args.get("out", "");
    let time_limit = args.num("time-limit", 3600);
    let only_mode = args.get("only-mode", "");
    let hooks_off = args.flags.contains("no-hook");
    let slow_ms = args.num("slow-ms", 0);
    let cap_len = args.num("cap-len", 0);
    let g = gen::Gen {
        shapes,
        small,
        thorough,
        // experimental and off in every registered check: lowering RLIMIT_AS inside a shard makes thread creation fail as
        // intended, but the unwinder itself then sometimes aborts ("failed to initiate panic, error 5"), which would be a
        // false alarm on the unchanged tree (DESIGN.md 8.5, C07-c)
        spawn_faults: args.flags.contains("spawn-fail") && !small && !cfg!(miri),
    };
    let total = {
        let t = g.count(prop);
        let cap = args.num("max-cases", u64::MAX);
        t.min(cap)
    };
    exec::install_panic_hook();
    if g.spawn_faults {
        exec::prepare_heap_for_spawn_faults();
    }
    if !hooks_off {
        install_library_hook();
    }
    vhc::item::set_quiet(!replay);

    let mut st = Stats {
        evaluations: 0,
        by_mode: [0; 3],
        nontrivial: 0,
        distinct: HashSet::new(),
        signatures: HashSet::new(),
        events: 0,
        calls: 0,
        multi_worker: 0,
        inconclusive: 0,
        inconclusive_msgs: vec![],
        extra: HashMap::new(),
        skipped: 0,
    };
    let mut violations: Vec<String> = vec![];
    let mut viol_by_key: HashMap<String, u32> = HashMap::new();
    let mut other_props: HashMap<&'static str, (u64, String)> = HashMap::new();
    let mut samples: Vec<String> = vec![];
    let mut progress = if out.is_empty() || replay {
        None
    } else {
        std::fs::File::create(format!("{}.progress", out)).ok()
    };
    let t0 = std::time::Instant::now();
    let indices: Vec<u64> = if replay {
        vec![args.num("idx", 0)]
    } else {
        (0..total).filter(|i| i % nshards == shard).collect()
    };
    let mut timed_out = false;
    let explore = args.flags.contains("explore");
    let bound = args.num("bound", 2) as usize;
    let max_runs = args.num("max-runs", 1500);
    let replay_script: Option<Vec<u8>> = args.kv.get("script").map(|t| {
        t.split(',').filter(|x| !x.is_empty()).filter_map(|x| x.trim().parse::<u8>().ok()).collect()
    });
    let mut feeder = Feeder {
        indices: indices.into_iter().collect(),
        explore: explore || replay_script.is_some(),
        cur: None,
        stack: vec![],
        runs: 0,
        complete: true,
        bound,
        max_runs,
        fixed_script: replay_script,
    };
    loop {
        if t0.elapsed().as_secs() > time_limit {
            timed_out = true;
            break;
        }
        let (idx, case) = match feeder.next(&g, prop, seed, &mut st) {
            Some(x) => x,
            None => break,
        };
        if cap_len > 0 && (case.len as u64 > cap_len || case.nt == 0 || case.nt > 6 || case.probe_sleep_us > 0) {
            // ThreadSanitizer build: the dependency's spin-waits under a 10x slowdown, 16 processes x 16 threads, make long
            // inputs and many-thread cases take minutes; those are exercised by the plain and release builds
            continue;
        }
        if !only_mode.is_empty() {
            let m = match case.mode {
                Mode::S => "S",
                Mode::F => "F",
                Mode::Q => "Q",
            };
            if m != only_mode {
                continue;
            }
        }
        if let Some(f) = progress.as_mut() {
            let _ = f.seek(std::io::SeekFrom::Start(0));
            let _ = writeln!(f, "{} {} {:<200}", idx, seed, case.describe());
        }
        if replay {
            println!("case idx={} : {}", idx, case.describe());
            println!("  stages: {:?}", case.stages);
            println!("  pred: {:?} setters: {:?} faults: {:?}", case.pred, case.setters, case.faults);
        }
        let e = exec::exec(shapes, case.clone());
        if slow_ms > 0 && e.wall_us / 1000 > slow_ms as u128 {
            eprintln!("SLOW {} ms idx={} waits={:?} {}", e.wall_us / 1000, idx, e.wait_stats, case.describe());
        }
        let tc = std::time::Instant::now();
        let mut verdict = oracle::check(&e);
        if replay {
            println!("exec {} us, check {} us", e.wall_us, tc.elapsed().as_micros());
        }
        if prop == "C15" && e.case.faults.is_empty() {
            // the same computation under num_threads(1)
            let mut c1 = case.clone();
            c1.mode = Mode::Q;
            let e1 = exec::exec(shapes, c1);
            match (&e.obs, &e1.obs) {
                (Ok(a), Ok(b)) => {
                    if obs_canon(a) != obs_canon(b) {
                        verdict.violations.push(oracle::Violation {
                            prop: "C15",
                            key: "differs-from-sequential".into(),
                            msg: format!(
                                "{} under nt={} cs={:?} returned {:.300}, with num_threads(1) it returns {:.300}",
                                case.term.name(),
                                case.nt,
                                case.cs,
                                format!("{:?}", a),
                                format!("{:?}", b)
                            ),
                        });
                    }
                }
                (_, Err(m)) => verdict.violations.push(oracle::Violation {
                    prop: "C15",
                    key: "panic".into(),
                    msg: format!("num_threads(1) run panicked: {:?}", m),
                }),
                _ => {}
            }
        }
        st.evaluations += 1;
        feeder.feedback(&e, &mut st);
        if e.case.strategy == Strategy::Script && st.evaluations % 61 == 0 {
            // the exploration relies on runs being reproducible from their script: re-execute and compare
            let e2 = exec::exec(shapes, case.clone());
            bump(&mut st.extra, "explore_reproducibility_checks", 1);
            if e2.decisions != e.decisions || format!("{:?}", e2.obs) != format!("{:?}", e.obs) {
                bump(&mut st.extra, "explore_reproducibility_mismatches", 1);
            }
        }
        st.by_mode[match e.case.mode {
            Mode::S => 0,
            Mode::F => 1,
            Mode::Q => 2,
        }] += 1;
        let nev: u64 = e.events.iter().map(|x| x.2.len() as u64).sum();
        st.events += nev;
        st.calls += e.calls().len() as u64;
        if !verdict.inconclusive.is_empty() {
            st.inconclusive += 1;
            if st.inconclusive_msgs.len() < 5 {
                st.inconclusive_msgs.push(format!("idx {}: {}", idx, verdict.inconclusive.join("; ")));
            }
        }
        {
            // workers of one run started with different chunk sizes (Min/Auto growth after a lag period)
            let mut chunks: Vec<u64> = e
                .events
                .iter()
                .flat_map(|(_, _, v)| v.iter())
                .filter(|x| x.kind == K_WBEGIN)
                .map(|x| x.a)
                .collect();
            chunks.sort();
            chunks.dedup();
            if chunks.len() >= 2 && e.runs.len() == 1 {
                bump(&mut st.extra, "runs_with_mixed_worker_chunk_sizes", 1);
            }
        }
        if e.case.spawn_fail && e.spawn_fault_engaged {
            bump(&mut st.extra, "runs_under_thread_creation_failure", 1);
            if e.obs.is_err() {
                bump(&mut st.extra, "of_which_panicked", 1);
            }
        }
        let sig = e.signature();
        if e.active_workers() >= 2 {
            st.multi_worker += 1;
            st.signatures.insert(sig);
        }
        if nontrivial(prop, &e, &mut st) {
            st.nontrivial += 1;
            // explored schedules are distinct executions by construction (one per script)
            let script_h = e.case.script.iter().fold(0x51_7cc1_b727_220a_95u64, |h, &c| mix64(h ^ (c as u64 + 1)));
            let sh = if e.case.strategy == Strategy::Script { script_h } else { 0 };
            st.distinct.insert(mix64(config_class(&e.case) ^ sig.rotate_left(7) ^ sh));
            if samples.len() < 3 && (idx / nshards) % 97 == 0 {
                samples.push(sample_json(&e, idx));
            }
        }
        for vi in &verdict.violations {
            if vi.prop == prop {
                // at most 25 records per distinct key, so that frequent (e.g. known) findings cannot crowd out others
                let kc = viol_by_key.entry(vi.key.clone()).or_insert(0u32);
                *kc += 1;
                if *kc <= 25 {
                    violations.push(format!(
                        "{{\"prop\":{},\"key\":{},\"msg\":{},\"idx\":{},\"seed\":{},\"tier\":{},\"small\":{},\"case\":{},\"mode\":{},\"picks\":{},\"script\":{}}}",
                        jstr(vi.prop),
                        jstr(&vi.key),
                        jstr(&vi.msg),
                        idx,
                        seed,
                        jstr(if thorough { "thorough" } else { "quick" }),
                        small,
                        jstr(&e.case.describe()),
                        jstr(&format!("{:?}", e.case.mode)),
                        jstr(&format!("{:?}", e.picks.iter().take(400).collect::<Vec<_>>())),
                        jstr(&if e.case.strategy == Strategy::Script {
                            format!("explore:{}", e.case.script.iter().map(|x| x.to_string()).collect::<Vec<_>>().join(","))
                        } else {
                            String::new()
                        })
                    ));
                }
                if replay {
                    println!("VIOLATION {} [{}]: {}", vi.prop, vi.key, vi.msg);
                }
            } else {
                let ent = other_props.entry(vi.prop).or_insert((0, String::new()));
                ent.0 += 1;
                if ent.1.is_empty() {
                    ent.1 = format!("idx {} [{}] {}", idx, vi.key, vi.msg);
                }
                if replay {
                    println!("(other property) {} [{}]: {}", vi.prop, vi.key, vi.msg);
                }
            }
        }
        if replay {
            println!("observed: {:?}", e.obs);
            println!("model full: {:?}", e.model.full.iter().take(50).collect::<Vec<_>>());
            if let Some(sc) = &e.model.sc {
                println!("model short-circuit: found={:?} any={} all={}", sc.found, sc.any, sc.all);
            }
            println!(
                "gauges: max_active={} max_live_workers={} worker_begins={} runs={:?}",
                e.max_active, e.max_live_workers, e.worker_begins, e.runs
            );
            println!("drops: {:?} ctx_owned={}", e.drops, e.ctx_owned);
            println!("steps: {:?}", e.steps);
            println!("picks: {:?}", e.picks);
            if args.flags.contains("events") {
                let mut evs: Vec<(usize, Ev)> = vec![];
                for (slot, _, v) in &e.events {
                    for x in v {
                        evs.push((*slot, *x));
                    }
                }
                evs.sort_by_key(|x| x.1.seq);
                for (s, x) in evs {
                    println!("  {}", ev_json(s, &x));
                }
            }
            println!("inconclusive: {:?}", verdict.inconclusive);
        }
    }
    if samples.is_empty() {
        // make sure at least one sample is present if anything ran
        if let Some(c) = g.case_at(prop, shard, seed) {
            let e = exec::exec(shapes, c);
            samples.push(sample_json(&e, shard));
        }
    }
    if replay {
        return;
    }
    let mut extra: Vec<String> = st.extra.iter().map(|(k, v)| format!("{}:{}", jstr(k), v)).collect();
    extra.sort();
    let mut others: Vec<String> = other_props
        .iter()
        .map(|(k, v)| format!("{}:{{\"count\":{},\"first\":{}}}", jstr(k), v.0, jstr(&v.1)))
        .collect();
    others.sort();
    let distinct: Vec<String> = st.distinct.iter().map(|h| format!("\"{:x}\"", h)).collect();
    let sigs: Vec<String> = st.signatures.iter().map(|h| format!("\"{:x}\"", h)).collect();
    let report = format!(
        "{{\"prop\":{},\"shard\":{},\"nshards\":{},\"seed\":{},\"tier\":{},\"small\":{},\"evaluations\":{},\"planned\":{},\"timed_out\":{},\"skipped\":{},\"by_mode\":{{\"S\":{},\"F\":{},\"Q\":{}}},\"nontrivial\":{},\"multi_worker\":{},\"events\":{},\"closure_calls\":{},\"inconclusive\":{},\"inconclusive_msgs\":[{}],\"extra\":{{{}}},\"other_props\":{{{}}},\"violations\":[{}],\"samples\":[{}],\"distinct\":[{}],\"signatures\":[{}],\"wall_s\":{:.3}}}",
        jstr(prop),
        shard,
        nshards,
        seed,
        jstr(if thorough { "thorough" } else { "quick" }),
        small,
        st.evaluations,
        total,
        timed_out,
        st.skipped,
        st.by_mode[0],
        st.by_mode[1],
        st.by_mode[2],
        st.nontrivial,
        st.multi_worker,
        st.events,
        st.calls,
        st.inconclusive,
        st.inconclusive_msgs.iter().map(|s| jstr(s)).collect::<Vec<_>>().join(","),
        extra.join(","),
        others.join(","),
        violations.join(","),
        samples.join(","),
        distinct.join(","),
        sigs.join(","),
        t0.elapsed().as_secs_f64()
    );
    if out.is_empty() {
        println!("{}", report);
    } else {
        std::fs::write(&out, report).expect("write report");
        let _ = std::fs::remove_file(format!("{}.progress", out));
    }
}
