//! The oracles: deterministic functions from what one execution showed to violations of C01..C16.
//!
//! Every oracle is computed on every case it applies to; a check for property X reports only X's records.

use crate::exec::{Call, Exec};
use std::collections::{HashMap, HashSet};
use vhc::case::*;
use vhc::ctx::*;
use vhc::drive::Obs;
use vhc::item::{leaf_term, mix64, node_term, Agg, ID_IDENTITY, PRE_BASE};
use vhc::model::Tup;

#[derive(Clone, Debug)]
pub struct Violation {
    pub prop: &'static str,
    /// exact signature used to match known findings
    pub key: String,
    pub msg: String,
}

fn v(prop: &'static str, key: impl Into<String>, msg: impl Into<String>) -> Violation {
    Violation {
        prop,
        key: key.into(),
        msg: msg.into(),
    }
}

fn short<T: std::fmt::Debug>(x: &T) -> String {
    let s = format!("{:?}", x);
    if s.len() > 400 {
        format!("{}…", &s[..400])
    } else {
        s
    }
}

pub fn expected_pre(n: usize) -> Vec<Tup> {
    (0..n as u64).map(|k| (PRE_BASE + k, (k % 7) as u32)).collect()
}

/// property that owns the result of a terminal (parallel or sequential)
fn result_prop(e: &Exec) -> &'static str {
    let t = e.case.term;
    if t.is_ordered_collect() {
        if t.is_collect_into() && e.case.pre_len > 0 {
            "C06"
        } else {
            "C01"
        }
    } else if t == Term::CollectX {
        "C07"
    } else if t == Term::Count || t == Term::ForEach {
        "C04"
    } else if t.is_reduce_family() {
        "C03"
    } else {
        "C02"
    }
}

pub struct Verdict {
    pub violations: Vec<Violation>,
    /// harness-level problems: the case decides nothing
    pub inconclusive: Vec<String>,
}

pub fn check(e: &Exec) -> Verdict {
    let mut out = vec![];
    let mut inc = vec![];
    if e.stalled {
        inc.push("scheduler stall watchdog fired".to_string());
    }
    if e.slot_overflow {
        inc.push("more threads than monitor slots".to_string());
    }
    if e.drops.overflow > 0 {
        inc.push("drop table overflow".to_string());
    }
    let faulty = !e.case.faults.is_empty();

    match &e.obs {
        Err(msgs)
            if msgs.iter().any(|m| m.contains("@ tabs/") || m.contains("@ vh/src") || m.contains("@ core/src"))
                && !msgs.iter().any(|m| m.contains("called outside its domain"))
                && e.injected == 0 =>
        {
            // a panic raised by the harness itself decides nothing
            inc.push(format!("harness panic: {}", short(msgs)));
        }
        Err(_) if e.case.spawn_fail && e.spawn_fault_engaged => {
            // thread creation was made to fail: panicking is an acceptable outcome
        }
        Err(msgs) => {
            if !faulty || e.injected == 0 {
                // a panic nobody injected
                let m = short(msgs);
                out.push(v("C15", "panic", format!("computation panicked: {}", m)));
                out.push(v(result_prop(e), "panic", format!("computation panicked: {}", m)));
                if e.case.mode == Mode::Q {
                    out.push(v("C09", "panic", format!("sequential computation panicked: {}", m)));
                }
            }
        }
        Ok(obs) => {
            if faulty && e.injected > 0 {
                out.push(v(
                    "C14",
                    "returned-value",
                    format!(
                        "a closure panicked ({} injected) but the call returned a value: {}",
                        e.injected,
                        short(obs)
                    ),
                ));
            }
            if !faulty {
                check_result(e, obs, &mut out);
                check_calls(e, &mut out);
            }
        }
    }
    // drop discipline
    if e.drops.double > 0 || e.drops.garbage > 0 {
        let p = if faulty { "C14" } else { "C13" };
        out.push(v(
            p,
            "double-or-garbage-drop",
            format!(
                "double drops: {}, drops of garbage/poisoned memory: {} (first id {:#x})",
                e.drops.double, e.drops.garbage, e.drops.first_bad_id
            ),
        ));
    }
    if !faulty && e.obs.is_ok() && e.drops.overflow == 0 && e.drops.live != e.ctx_owned {
        out.push(v(
            "C13",
            "leak",
            format!(
                "{} items born, {} dropped, {} still live after the result was dropped (expected {} owned by the monitor); first live serial {}",
                e.drops.born, e.drops.dropped, e.drops.live, e.ctx_owned, e.drops.first_live_serial
            ),
        ));
    }
    // the thread bound holds on panicking runs too (a replacement for a dead worker is one thread too many)
    check_threads(e, &mut out);
    if !faulty {
        check_short_circuit(e, &mut out, &mut inc);
        check_exact_chunks(e, &mut out);
    }
    check_params_and_laziness(e, &mut out);
    Verdict {
        violations: out,
        inconclusive: inc,
    }
}

// ------------------------------------------------------------------------------------------------
// results

fn agg_of_model(full: &[Tup]) -> (u64, u64, u64, Vec<u64>) {
    let mut sum = 0u64;
    let mut xor = 0u64;
    let mut ids: Vec<u64> = full.iter().map(|t| t.0).collect();
    for t in full {
        sum = sum.wrapping_add(mix64(t.0));
        xor ^= mix64(t.0 ^ 0x55);
    }
    ids.sort();
    (full.len() as u64, sum, xor, ids)
}

fn left_fold_term(full: &[Tup]) -> Option<u64> {
    let mut it = full.iter();
    let first = it.next()?;
    let mut acc = leaf_term(first.0, first.1);
    for t in it {
        acc = node_term(acc, leaf_term(t.0, t.1));
    }
    Some(acc)
}

fn check_agg(e: &Exec, prop: &'static str, a: &Agg, full: &[Tup], out: &mut Vec<Violation>) {
    let (n, sum, xor, ids) = agg_of_model(full);
    if a.identities != 0 {
        out.push(v(prop, "identity-folded", format!("the identity contributed {} times to a non-empty reduction", a.identities)));
    }
    if a.count != n || a.sum != sum || a.xor != xor {
        let mut got = a.ids.clone();
        got.sort();
        let detail = if a.ids_exact {
            let gs: HashSet<u64> = got.iter().copied().collect();
            let ms: HashSet<u64> = ids.iter().copied().collect();
            let missing: Vec<String> = ids.iter().filter(|i| !gs.contains(i)).take(6).map(|i| format!("{:#x}", i)).collect();
            let extra: Vec<String> = got.iter().filter(|i| !ms.contains(i)).take(6).map(|i| format!("{:#x}", i)).collect();
            format!("missing {:?} extra {:?}", missing, extra)
        } else {
            String::new()
        };
        out.push(v(
            prop,
            "contributions",
            format!("{}: contributions differ from the survivors: got count {} expected {}; {}", e.case.term.name(), a.count, n, detail),
        ));
    } else if a.ids_exact {
        let mut got = a.ids.clone();
        got.sort();
        if got != ids {
            out.push(v(prop, "contributions", format!("{}: contribution multiset differs (duplicates compensating losses)", e.case.term.name())));
        }
    }
    if e.case.mode == Mode::Q {
        if let Some(t) = left_fold_term(full) {
            if a.count == n && a.term != t {
                out.push(v("C09", "fold-order", format!("{}: sequential reduction is not the left-to-right fold of Iterator::reduce", e.case.term.name())));
            }
        }
    }
}

fn extremal(full: &[Tup], want_max: bool) -> Option<Tup> {
    let key = |t: &Tup| (t.1, t.0);
    if want_max {
        full.iter().copied().max_by_key(key)
    } else {
        full.iter().copied().min_by_key(key)
    }
}

fn check_result(e: &Exec, obs: &Obs, out: &mut Vec<Violation>) {
    let c = &e.case;
    let prop = result_prop(e);
    let full = &e.model.full;
    let mut bad: Option<String> = None;
    match c.term {
        t if t.is_ordered_collect() => {
            let mut exp = if t.is_collect_into() { expected_pre(c.pre_len) } else { vec![] };
            exp.extend(full.iter().copied());
            match obs {
                Obs::Seq(got) => {
                    if *got != exp {
                        let pos = got.iter().zip(exp.iter()).position(|(a, b)| a != b).unwrap_or(got.len().min(exp.len()));
                        bad = Some(format!(
                            "{}: result differs from the sequential chain at position {} (got len {}, expected len {}); got[..]={} expected[..]={}",
                            t.name(),
                            pos,
                            got.len(),
                            exp.len(),
                            short(&got.iter().skip(pos.saturating_sub(1)).take(4).collect::<Vec<_>>()),
                            short(&exp.iter().skip(pos.saturating_sub(1)).take(4).collect::<Vec<_>>())
                        ));
                    }
                }
                o => bad = Some(format!("unexpected observation {}", short(o))),
            }
        }
        Term::CollectX => match obs {
            Obs::Bag(got) => {
                let mut g = got.clone();
                g.sort();
                let mut x = full.clone();
                x.sort();
                if g != x {
                    bad = Some(format!("collect_x: not a permutation of the sequential result (got {} elements, expected {})", g.len(), x.len()));
                }
            }
            o => bad = Some(format!("unexpected observation {}", short(o))),
        },
        Term::Count => match obs {
            Obs::Count(n) => {
                if *n != full.len() {
                    bad = Some(format!("count returned {} but the sequential chain yields {}", n, full.len()));
                }
            }
            o => bad = Some(format!("unexpected observation {}", short(o))),
        },
        Term::ForEach => {
            let mut got: Vec<u64> = e.calls().iter().filter(|c| c.stage == ST_BODY).map(|c| c.id).collect();
            got.sort();
            let mut exp: Vec<u64> = full.iter().map(|t| t.0).collect();
            exp.sort();
            if got != exp {
                bad = Some(format!("for_each: closure invoked {} times, sequential chain yields {} elements (multisets differ)", got.len(), exp.len()));
            }
        }
        Term::Reduce | Term::Fold | Term::Sum => {
            if e.info.ref_elem {
                // selection operator on references: minimum by (val, id)
                let exp = extremal(full, false);
                match obs {
                    Obs::Opt(got) => {
                        let exp2 = match (c.term, exp) {
                            (Term::Fold, None) => Some((ID_IDENTITY, 0)),
                            (_, x) => x,
                        };
                        if *got != exp2 {
                            bad = Some(format!("{}: got {:?}, expected {:?}", c.term.name(), got, exp2));
                        }
                    }
                    Obs::Unsupported => {}
                    o => bad = Some(format!("unexpected observation {}", short(o))),
                }
            } else {
                match obs {
                    Obs::Agg(None) => {
                        if !full.is_empty() || c.term != Term::Reduce {
                            bad = Some(format!("{}: returned None but {} elements survive", c.term.name(), full.len()));
                        }
                    }
                    Obs::Agg(Some(a)) => {
                        if full.is_empty() {
                            if c.term == Term::Reduce || a.count != 0 || a.identities != 1 {
                                bad = Some(format!("{}: nothing survives but the result has {} contributions, {} identities", c.term.name(), a.count, a.identities));
                            }
                        } else {
                            check_agg(e, prop, a, full, out);
                        }
                    }
                    Obs::Opt(Some(t)) => {
                        if !(full.len() == 1 && full[0] == *t) {
                            bad = Some(format!("{}: returned the single element {:?} but survivors are {}", c.term.name(), t, short(full)));
                        }
                    }
                    o => bad = Some(format!("unexpected observation {}", short(o))),
                }
            }
        }
        Term::Min | Term::Max | Term::MinBy | Term::MaxBy | Term::MinByKey | Term::MaxByKey => {
            let want_max = matches!(c.term, Term::Max | Term::MaxBy | Term::MaxByKey);
            let ties = c.ties && !matches!(c.term, Term::Min | Term::Max);
            let got = match obs {
                Obs::Opt(g) => *g,
                Obs::Agg(None) => None,
                o => {
                    bad = Some(format!("unexpected observation {}", short(o)));
                    None
                }
            };
            if bad.is_none() {
                if ties {
                    let ext = if want_max { full.iter().map(|t| t.1).max() } else { full.iter().map(|t| t.1).min() };
                    match (got, ext) {
                        (None, None) => {}
                        (Some(g), Some(x)) => {
                            if g.1 != x || !full.contains(&g) {
                                bad = Some(format!("{}: got {:?}, which is not an extremal survivor (extremal key {})", c.term.name(), g, x));
                            }
                        }
                        (g, x) => bad = Some(format!("{}: got {:?}, expected extremal key {:?}", c.term.name(), g, x)),
                    }
                } else {
                    let exp = extremal(full, want_max);
                    if got != exp {
                        bad = Some(format!("{}: got {:?}, expected {:?}", c.term.name(), got, exp));
                    }
                }
            }
        }
        Term::Find | Term::First => {
            let exp = e.model.sc.as_ref().and_then(|s| s.found);
            match obs {
                Obs::Opt(got) => {
                    if *got != exp {
                        bad = Some(format!("{}: got {:?}, the first match in source order is {:?}", c.term.name(), got, exp));
                    }
                }
                o => bad = Some(format!("unexpected observation {}", short(o))),
            }
        }
        Term::FindIdx | Term::FirstIdx => {
            let exp = e.model.sc.as_ref().and_then(|s| s.found).map(|t| ((t.0 >> 12) as usize, t.0, t.1));
            match obs {
                Obs::OptIdx(got) => {
                    if *got != exp {
                        bad = Some(format!("{}: got {:?}, expected (index, id, val) = {:?}", c.term.name(), got, exp));
                    }
                }
                o => bad = Some(format!("unexpected observation {}", short(o))),
            }
        }
        Term::Any => {
            let exp = e.model.sc.as_ref().map(|s| s.any).unwrap_or(false);
            if *obs != Obs::Bool(exp) {
                bad = Some(format!("any: got {:?}, expected {}", obs, exp));
            }
        }
        Term::All => {
            let exp = e.model.sc.as_ref().map(|s| s.all).unwrap_or(true);
            if *obs != Obs::Bool(exp) {
                bad = Some(format!("all: got {:?}, expected {}", obs, exp));
            }
        }
        _ => {}
    }
    if let Some(m) = bad {
        out.push(v(prop, "result", m.clone()));
        if c.mode == Mode::Q {
            out.push(v("C09", "result", m));
        }
    }
}

// ------------------------------------------------------------------------------------------------
// closure calls (C05, C09 sequences, C10 sequential)

fn check_calls(e: &Exec, out: &mut Vec<Violation>) {
    let c = &e.case;
    let calls = e.calls();
    let depth = c.stages.len() as u8;
    let is_chain = |s: u8| s < depth || s == ST_LIFT;
    let counts = e.call_counts();
    if !c.endless {
        let mut model_counts: HashMap<(u8, u64), u32> = HashMap::new();
        for k in &e.model.full_calls {
            *model_counts.entry(*k).or_insert(0) += 1;
        }
        if !c.term.is_short_circuit() {
            // exactly the sequential multiset
            let mut bad = None;
            for (k, n) in &model_counts {
                let g = counts.get(k).copied().unwrap_or(0);
                if g != *n {
                    bad = Some(format!("{} called {} times with argument {:#x}, the sequential chain calls it {} times", stage_name(k.0), g, k.1, n));
                    break;
                }
            }
            if bad.is_none() {
                for (k, n) in &counts {
                    if is_chain(k.0) && !model_counts.contains_key(k) {
                        bad = Some(format!("{} called {} times with argument {:#x}, which never reaches that stage sequentially", stage_name(k.0), n, k.1));
                        break;
                    }
                }
            }
            if let Some(m) = bad {
                out.push(v("C05", "call-multiset", m));
            }
        } else {
            for (k, n) in &counts {
                if is_chain(k.0) {
                    if *n > 1 {
                        out.push(v("C05", "call-multiset", format!("short-circuit terminal: {} called {} times with argument {:#x}", stage_name(k.0), n, k.1)));
                        break;
                    }
                    if !model_counts.contains_key(k) {
                        out.push(v("C05", "call-multiset", format!("short-circuit terminal: {} called with argument {:#x}, which never reaches that stage", stage_name(k.0), k.1)));
                        break;
                    }
                }
                if k.0 == ST_PRED {
                    if *n > 1 {
                        out.push(v("C05", "call-multiset", format!("predicate called {} times on element {:#x}", n, k.1)));
                        break;
                    }
                    if !e.model.full.iter().any(|t| t.0 == k.1) {
                        out.push(v("C05", "call-multiset", format!("predicate called on {:#x}, which does not survive the chain", k.1)));
                        break;
                    }
                }
            }
        }
    }
    // by-value iterator source: one thread at a time, every yielded element fed exactly once
    if c.src.is_probe() {
        if e.probe_reentry > 0 {
            out.push(v("C05", "source-reentry", format!("Iterator::next of the source was entered {} times while another thread was inside it", e.probe_reentry)));
        }
        let mut pulled: Vec<u64> = vec![];
        for (_, _, evs) in &e.events {
            for ev in evs {
                if ev.kind == K_PULL && ev.a != PULL_END {
                    pulled.push(ev.a);
                }
            }
        }
        pulled.sort();
        if pulled.windows(2).any(|w| w[0] == w[1]) {
            out.push(v("C05", "source-yield", "the source yielded the same position twice (monitor inconsistency)".to_string()));
        }
        if !c.stages.is_empty() {
            for id in &pulled {
                let n = counts.get(&(0u8, *id)).copied().unwrap_or(0);
                let ok = if c.term.is_short_circuit() { n <= 1 } else { n == 1 };
                if !ok {
                    out.push(v("C05", "source-feed", format!("element {:#x} yielded by the source reached the first stage {} times", id, n)));
                    break;
                }
            }
        }
        if !c.term.is_short_circuit() && !c.endless && pulled.len() != c.len {
            out.push(v("C05", "source-feed", format!("source of {} elements was asked for {} elements", c.len, pulled.len())));
        }
    }
    if c.mode == Mode::Q {
        // sequential mode: per-stage argument sequences and everything on the calling thread
        let model_seq: &Vec<(u8, u64)> = match (&e.model.sc, c.term.is_short_circuit()) {
            (Some(sc), true) => &sc.calls,
            _ => &e.model.full_calls,
        };
        if !c.endless || c.term.is_short_circuit() {
            let mut stages: Vec<u8> = (0..depth).collect();
            stages.push(ST_LIFT);
            stages.push(ST_PRED);
            for s in stages {
                let got: Vec<u64> = calls.iter().filter(|k| k.stage == s).map(|k| k.id).collect();
                let exp: Vec<u64> = model_seq.iter().filter(|k| k.0 == s).map(|k| k.1).collect();
                if got != exp {
                    let pos = got.iter().zip(exp.iter()).position(|(a, b)| a != b).unwrap_or(got.len().min(exp.len()));
                    let extra_only = got.len() > exp.len() && got[..exp.len()] == exp[..];
                    let msg = format!(
                        "sequential mode: {} saw {} arguments, the std chain gives {}; first difference at call {} (got {:?}, expected {:?})",
                        stage_name(s),
                        got.len(),
                        exp.len(),
                        pos,
                        got.get(pos).map(|x| format!("{:#x}", x)),
                        exp.get(pos).map(|x| format!("{:#x}", x))
                    );
                    out.push(v("C09", "stage-sequence", msg.clone()));
                    if c.term.is_short_circuit() && extra_only {
                        out.push(v("C10", "sequential-overrun", format!("sequential short-circuit evaluated elements beyond the first match: {}", msg)));
                    }
                    break;
                }
            }
        }
        if let Some(k) = calls.iter().find(|k| k.tkey != e.caller_tkey) {
            out.push(v("C09", "foreign-thread", format!("sequential mode: {} ran on a thread other than the caller", stage_name(k.stage))));
        }
    }
}

// ------------------------------------------------------------------------------------------------
// C08: thread bounds

fn check_threads(e: &Exec, out: &mut Vec<Violation>) {
    let c = &e.case;
    if !c.set_params || !c.setters.is_empty() {
        return;
    }
    let n = if c.mode == Mode::Q { 1 } else { c.nt };
    if n == 0 {
        return;
    }
    let calls = e.calls();
    if e.max_active > n as i64 {
        out.push(v("C08", "active-gauge", format!("Max({}): {} threads were inside closures of the computation at the same time", n, e.max_active)));
    }
    if e.max_live_workers > n as i64 {
        out.push(v("C08", "live-workers", format!("Max({}): {} worker threads were alive at the same time", n, e.max_live_workers)));
    }
    let mut per_stage: HashMap<u8, HashSet<u64>> = HashMap::new();
    for k in &calls {
        per_stage.entry(k.stage).or_default().insert(k.tkey);
    }
    if n == 1 {
        if e.worker_begins > 0 || !e.runs.is_empty() {
            out.push(v("C08", "max1-spawn", format!("Max(1): {} worker threads were spawned ({} runner runs)", e.worker_begins, e.runs.len())));
        }
        if let Some(k) = calls.iter().find(|k| k.tkey != e.caller_tkey) {
            out.push(v("C08", "max1-foreign-thread", format!("Max(1): {} ran on a thread other than the caller", stage_name(k.stage))));
        }
        return;
    }
    let mut stages: Vec<&u8> = per_stage.keys().collect();
    stages.sort();
    for s in stages {
        let set = &per_stage[s];
        if set.len() > n {
            let has_caller = set.contains(&e.caller_tkey);
            let kind = stage_name(*s);
            let key = if matches!(*s, ST_OP | ST_CMP | ST_KEY) && set.len() == n + 1 && has_caller {
                // the runner's final cross-thread combine runs the operator on the calling thread
                "Runner::reduce:final-combine-on-caller".to_string()
            } else {
                format!("distinct-threads:{}", kind)
            };
            out.push(v(
                "C08",
                key,
                format!("Max({}): {} was run by {} distinct threads{}", n, kind, set.len(), if has_caller { " (the caller among them)" } else { "" }),
            ));
        }
    }
}

// ------------------------------------------------------------------------------------------------
// C10: bounded work after a match (mode S), termination on endless sources

pub fn match_event(e: &Exec) -> Option<Call> {
    let c = &e.case;
    let rets = e.rets();
    let depth = c.stages.len();
    match c.term {
        Term::Find | Term::FindIdx | Term::Any => rets.iter().find(|r| r.stage == ST_PRED && r.b == 1).copied(),
        Term::All => rets.iter().find(|r| r.stage == ST_PRED && r.b == 0).copied(),
        Term::First | Term::FirstIdx => {
            let last = if depth > 0 {
                (depth - 1) as u8
            } else if c.src == Src::Range {
                ST_LIFT
            } else {
                return None;
            };
            rets.iter().find(|r| r.stage == last && r.b >= 1 && r.b < u64::MAX - 100).copied()
        }
        _ => None,
    }
}

fn check_short_circuit(e: &Exec, out: &mut Vec<Violation>, _inc: &mut Vec<String>) {
    let c = &e.case;
    if !c.term.is_short_circuit() || e.obs.is_err() {
        return;
    }
    if c.endless && e.budget_exhausted {
        let has_match = match &e.model.sc {
            Some(sc) => sc.found.is_some() || (c.term == Term::Any && sc.any) || (c.term == Term::All && !sc.all),
            None => false,
        };
        if has_match {
            match c.mode {
                // sequential: the lazy chain stops at the first match, whatever the schedule
                Mode::Q => out.push(v(
                    "C10",
                    "endless-overrun",
                    format!("a match exists but the sequential computation kept consuming the endless source until the monitor's budget of {} elements ran out", c.budget),
                )),
                Mode::S => {
                    // only consumption *after* the first matching evaluation counts: a schedule may park the thread
                    // that holds the match for as long as it likes
                    if let Some(m) = match_event(e) {
                        let workers = e.events.iter().flat_map(|(_, _, v)| v.iter()).filter(|x| x.kind == K_WBEGIN).count() as u64;
                        let chunk = match c.cs {
                            Cs::Exact(x) | Cs::Min(x) => x as u64,
                            Cs::Auto => 1,
                        };
                        let after: u64 = e
                            .events
                            .iter()
                            .flat_map(|(_, _, v)| v.iter())
                            .filter(|x| x.kind == K_PULL && x.a != PULL_END && x.seq > m.seq)
                            .count() as u64;
                        if after > 2 * chunk * workers.max(1) {
                            out.push(v(
                                "C10",
                                "endless-overrun",
                                format!("{} elements were pulled from the endless source after the first match was known (budget {} exhausted)", after, c.budget),
                            ));
                        }
                    }
                }
                // free-running: the OS may delay the finder between its match and skip_to_end; mode S decides
                Mode::F => {}
            }
        }
    }
    if c.mode != Mode::S || !e.info.cuts.is_empty() {
        return;
    }
    let m = match match_event(e) {
        Some(m) => m,
        None => return,
    };
    // chunk size each worker was given
    let mut chunk_of: HashMap<usize, u64> = HashMap::new();
    for (slot, _, evs) in &e.events {
        for ev in evs {
            if ev.kind == K_WBEGIN {
                chunk_of.insert(*slot, ev.a);
            }
        }
    }
    let mut post: HashMap<usize, HashSet<u64>> = HashMap::new();
    for k in e.calls() {
        if k.seq > m.seq && k.slot != m.slot && (k.stage < 16 || k.stage == ST_LIFT || k.stage == ST_PRED) {
            post.entry(k.slot).or_default().insert(k.id >> 12);
        }
    }
    // Min/Auto: chunk sizes may grow with the progress made so far, never with what remains: the work after the
    // match is bounded in terms of the work before it (inputs of this profile leave >= 40x that much input)
    if !matches!(c.cs, Cs::Exact(_)) {
        let pre: HashSet<u64> = e.calls().iter().filter(|k| k.seq < m.seq).map(|k| k.id >> 12).collect();
        let post_total: usize = post.values().map(|s| s.len()).sum();
        let workers = chunk_of.len().max(1);
        let c0 = e.runs.first().map(|r| r.chunk_size).unwrap_or(1).max(1);
        let allowed = 8 * (pre.len() + workers * c0);
        if post_total > allowed {
            out.push(v(
                "C10",
                "post-match-work-scales-with-input",
                format!(
                    "after the first match was known the other threads still evaluated {} source positions; {} positions had been evaluated before the match ({} workers, initial chunk {}): work after a match grows with the remaining input",
                    post_total,
                    pre.len(),
                    workers,
                    c0
                ),
            ));
        }
    }
    for (slot, origins) in post {
        let chunk = chunk_of.get(&slot).copied().unwrap_or(1).max(1);
        if origins.len() as u64 > 2 * chunk {
            out.push(v(
                "C10",
                "post-match-work",
                format!(
                    "after the first match was known a thread (chunk size {}) still evaluated {} source positions (> 2 chunks)",
                    chunk,
                    origins.len()
                ),
            ));
            break;
        }
    }
}

// ------------------------------------------------------------------------------------------------
// C11: Exact(c)

fn check_exact_chunks(e: &Exec, out: &mut Vec<Violation>) {
    let c = &e.case;
    let cs = match c.cs {
        Cs::Exact(x) if c.set_params && c.setters.is_empty() && c.mode != Mode::Q && c.nt != 1 => x as u64,
        _ => return,
    };
    if e.obs.is_err() {
        return;
    }
    // hooks: what the runner resolved and handed to each worker
    for r in &e.runs {
        if !r.exact || r.chunk_size as u64 != cs {
            out.push(v("C11", "resolved", format!("Exact({}): the runner resolved the chunk size to {}({})", cs, if r.exact { "Exact" } else { "Min" }, r.chunk_size)));
            return;
        }
    }
    for (_, _, evs) in &e.events {
        for ev in evs {
            if ev.kind == K_WBEGIN && ev.a != cs {
                out.push(v("C11", "worker-chunk", format!("Exact({}): a worker was started with chunk size {}", cs, ev.a)));
                return;
            }
        }
    }
    let first = match e.first_stage() {
        Some(s) => s,
        None => return,
    };
    // bursts of next() calls on an instrumented iterator source
    if c.src.is_probe() && !c.endless {
        let mut short_bursts = 0;
        for (_, _, evs) in &e.events {
            let mut i = 0;
            while i < evs.len() {
                if evs[i].kind != K_PULL {
                    i += 1;
                    continue;
                }
                let mut elems: Vec<u64> = vec![];
                let mut ended = false;
                while i < evs.len() && evs[i].kind == K_PULL {
                    if evs[i].a == PULL_END {
                        ended = true;
                    } else {
                        elems.push(evs[i].a >> 12);
                    }
                    i += 1;
                }
                let k = elems.len() as u64;
                let consecutive = elems.windows(2).all(|w| w[1] == w[0] + 1);
                let aligned = elems.first().map(|f| f % cs == 0).unwrap_or(true);
                if k > cs || (!ended && k != cs) || !consecutive || !aligned {
                    out.push(v(
                        "C11",
                        "pull-size",
                        format!("Exact({}): one pull took {} elements starting at position {:?}{}", cs, k, elems.first(), if ended { " (it reached the end)" } else { "" }),
                    ));
                    return;
                }
                if k < cs && k > 0 {
                    short_bursts += 1;
                }
            }
        }
        if short_bursts > 1 {
            out.push(v("C11", "pull-size", format!("Exact({}): {} pulls took fewer than c elements", cs, short_bursts)));
            return;
        }
    }
    // aligned blocks are processed by one thread (blocks are counted from the first position of the run)
    let base = if c.src == Src::ConIterVec { c.pre_consumed as u64 } else { 0 };
    let owners = e.owners();
    let mut block_owner: HashMap<u64, usize> = HashMap::new();
    for (o, slot) in &owners {
        let b = o.saturating_sub(base) / cs;
        match block_owner.get(&b) {
            None => {
                block_owner.insert(b, *slot);
            }
            Some(s) if s != slot => {
                out.push(v("C11", "block-split", format!("Exact({}): positions of the aligned block {} were processed by different threads", cs, b)));
                return;
            }
            _ => {}
        }
    }
    // mode S: blocks start in position order (an over-sized pull lets a later block start first)
    if c.mode == Mode::S {
        let mut first_seen: HashMap<u64, u64> = HashMap::new();
        for k in e.calls() {
            if k.stage == first {
                first_seen.entry(((k.id >> 12).saturating_sub(base)) / cs).or_insert(k.seq);
            }
        }
        let mut by_seq: Vec<(u64, u64)> = first_seen.iter().map(|(b, s)| (*s, *b)).collect();
        by_seq.sort();
        if by_seq.windows(2).any(|w| w[1].1 < w[0].1) {
            out.push(v("C11", "block-order", format!("Exact({}): aligned blocks did not start in position order (some pull took more than one block)", cs)));
        }
    }
}

// ------------------------------------------------------------------------------------------------
// C12 (parameter propagation) and C16 (laziness)

#[derive(Clone, Copy, PartialEq, Eq, Debug)]
enum MNt {
    Auto,
    Max(usize),
}
#[derive(Clone, Copy, PartialEq, Eq, Debug)]
enum MCs {
    Auto,
    Exact(usize),
    Min(usize),
}

fn obs_nt(n: orx_parallel::NumThreads) -> MNt {
    match n {
        orx_parallel::NumThreads::Auto => MNt::Auto,
        orx_parallel::NumThreads::Max(x) => MNt::Max(x.get()),
    }
}
fn obs_cs(c: orx_parallel::ChunkSize) -> MCs {
    match c {
        orx_parallel::ChunkSize::Auto => MCs::Auto,
        orx_parallel::ChunkSize::Exact(x) => MCs::Exact(x.get()),
        orx_parallel::ChunkSize::Min(x) => MCs::Min(x.get()),
    }
}

fn apply_model_setters(c: &Case, pos: usize, nt: &mut MNt, cs: &mut MCs) {
    for (at, s) in &c.setters {
        if *at != pos {
            continue;
        }
        match *s {
            Setter::Nt(n) => *nt = MNt::Max(n.max(1)),
            Setter::NtAuto => *nt = MNt::Auto,
            Setter::NtFrom(0) => *nt = MNt::Auto,
            Setter::NtFrom(n) => *nt = MNt::Max(n),
            Setter::Cs(Cs::Auto) | Setter::CsAuto => *cs = MCs::Auto,
            Setter::Cs(Cs::Exact(x)) => *cs = MCs::Exact(x.max(1)),
            Setter::Cs(Cs::Min(x)) => *cs = MCs::Min(x.max(1)),
            Setter::CsFrom(0) => *cs = MCs::Auto,
            Setter::CsFrom(x) => *cs = MCs::Exact(x),
        }
    }
}

fn check_params_and_laziness(e: &Exec, out: &mut Vec<Violation>) {
    let c = &e.case;
    let mut nt = MNt::Auto;
    let mut cs = MCs::Auto;
    let mut c12_done = false;
    let mut c16_done = false;
    for st in &e.steps {
        // model
        if st.step == 1 {
            if c.set_params {
                let n = if c.mode == Mode::Q { 1 } else { c.nt };
                nt = if n > 0 { MNt::Max(n) } else { MNt::Auto };
                cs = match c.cs {
                    Cs::Auto => MCs::Auto,
                    Cs::Exact(x) => MCs::Exact(x.max(1)),
                    Cs::Min(x) => MCs::Min(x.max(1)),
                };
            }
            apply_model_setters(c, 0, &mut nt, &mut cs);
        } else if st.step >= 2 {
            apply_model_setters(c, st.step - 1, &mut nt, &mut cs);
        }
        if !c12_done {
            let (gn, gc) = (obs_nt(st.nt), obs_cs(st.cs));
            if gn != nt || gc != cs {
                out.push(v(
                    "C12",
                    format!("params:{}", st.label),
                    format!("after step {} ({}): params() reports {:?}/{:?}, the last values set are {:?}/{:?}", st.step, st.label, gn, gc, nt, cs),
                ));
                c12_done = true;
            } else if st.is_seq != (nt == MNt::Max(1)) {
                out.push(v("C12", format!("is_sequential:{}", st.label), format!("after step {}: is_sequential() is {} for {:?}", st.step, st.is_seq, nt)));
                c12_done = true;
            }
        }
        if !c16_done && (st.calls > 0 || st.pulls > 0) {
            out.push(v(
                "C16",
                format!("eager:{}", st.label),
                format!(
                    "{} ran {} closure calls and consumed {} source elements before any terminal was called",
                    st.label, st.calls, st.pulls
                ),
            ));
            c16_done = true;
        }
    }
    // parameters in effect at the terminal, as resolved by the runner for the terminal's own run (hook RunBegin)
    if e.obs.is_ok() && c.faults.is_empty() && !c16_done {
        if let Some(last) = e.runs.last() {
            let bad = match cs {
                MCs::Exact(x) => {
                    if !last.exact || last.chunk_size != x {
                        Some(format!("chunk size Exact({}) was in effect at the terminal call, the run used {}({})", x, if last.exact { "Exact" } else { "Min" }, last.chunk_size))
                    } else {
                        None
                    }
                }
                MCs::Min(_) | MCs::Auto => {
                    if last.exact {
                        Some(format!("chunk size {:?} was in effect at the terminal call, the run used Exact({})", cs, last.chunk_size))
                    } else {
                        None
                    }
                }
            };
            let bad = bad.or(match nt {
                MNt::Max(n) if n >= 2 && last.max_num_threads > n => Some(format!("num_threads Max({}) was in effect at the terminal call, the run allowed {} threads", n, last.max_num_threads)),
                _ => None,
            });
            if let Some(m) = bad {
                out.push(v("C16", "params-at-terminal", m));
            }
        }
    }
    // with num_threads(1) in effect everything runs on the caller
    if matches!(nt, MNt::Max(1)) && e.obs.is_ok() && c.faults.is_empty() && !c16_done {
        let foreign = e.calls().iter().any(|k| k.tkey != e.caller_tkey);
        if foreign || e.worker_begins > 0 {
            out.push(v("C16", "params-at-terminal", "num_threads(1) was in effect at the terminal call but work ran on other threads".to_string()));
        }
    }
}
