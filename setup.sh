#!/bin/sh
# Builds the verification harness from files on disk only (offline).
set -e
cd "$(dirname "$0")"
export CARGO_NET_OFFLINE=true
python3 tools/gen_table.py /verif/harness >/dev/null
python3 ./vcheck build
# Miri sysroot for the nightly toolchain (from the installed rust-src; offline)
(cd harness && CARGO_TARGET_DIR=/verif/harness/target-miri cargo +nightly miri setup >/dev/null 2>&1) || echo "warning: cargo miri setup failed"
echo "setup ok"
