#!/usr/bin/env python3
"""Generates harness/src/table.rs: one statically composed pipeline per (source kind, chain shape).

The library composes closures in the type system, so every chain shape has to be compiled; the *data* of a
case (which elements a filter keeps, fan-outs, parameters, terminal, faults ...) is interpreted at run time.
The generator is also the single place that knows the library's type-transition table: which concrete
iterator type each transformation yields, which transformations materialise their upstream eagerly
(the sites recorded as known findings of C16) and where the *_with_index methods are reachable.
"""
import itertools, sys

# type states: E(mpty) M(ap) F(ilter) MF FM(filtermap) FMF X(flatmap) XF
TNAME = {'E': 'ParEmpty', 'M': 'ParMap', 'F': 'ParFilter', 'MF': 'ParMapFilter', 'FM': 'ParFilterMap',
         'FMF': 'ParFilterMapFilter', 'X': 'ParFlatMap', 'XF': 'ParFlatMapFilter'}
# (state, op) -> (state, eager, opaque_return)
TR = {
    ('E', 'm'): ('M', 0, 0), ('E', 'f'): ('F', 0, 0), ('E', 'x'): ('X', 0, 0), ('E', 'o'): ('FM', 0, 0),
    ('M', 'm'): ('M', 0, 0), ('M', 'f'): ('MF', 0, 0), ('M', 'x'): ('X', 0, 0), ('M', 'o'): ('FM', 0, 0),
    ('F', 'm'): ('FM', 0, 0), ('F', 'f'): ('F', 0, 0), ('F', 'x'): ('X', 1, 0), ('F', 'o'): ('FM', 0, 0),
    ('MF', 'm'): ('FM', 0, 0), ('MF', 'f'): ('MF', 0, 0), ('MF', 'x'): ('X', 1, 0), ('MF', 'o'): ('FM', 0, 0),
    ('FM', 'm'): ('FM', 0, 0), ('FM', 'f'): ('FMF', 0, 1), ('FM', 'x'): ('X', 1, 1), ('FM', 'o'): ('FM', 0, 0),
    ('FMF', 'm'): ('FM', 0, 0), ('FMF', 'f'): ('FMF', 0, 0), ('FMF', 'x'): ('X', 1, 0), ('FMF', 'o'): ('FM', 0, 0),
    ('X', 'm'): ('X', 0, 0), ('X', 'f'): ('XF', 0, 0), ('X', 'x'): ('X', 0, 1), ('X', 'o'): ('FM', 1, 0),
    ('XF', 'm'): ('M', 1, 0), ('XF', 'f'): ('XF', 0, 0), ('XF', 'x'): ('X', 1, 0), ('XF', 'o'): ('FM', 1, 0),
}
METHOD = {'m': 'map', 'f': 'filter', 'x': 'flat_map', 'o': 'filter_map'}
OP_OF = {'M': 'm', 'F': 'f', 'X': 'x', 'O': 'o', 'R': 'o'}
HAS_INDEX = {'E', 'M', 'F', 'MF'}

def shapes():
    base = ['']
    for d in (1, 2):
        base += [''.join(t) for t in itertools.product('MFXO', repeat=d)]
    d3 = [a + 'F' + b for a in 'MOX' for b in 'MFXO']
    extra = ['R', 'RF', 'MR', 'FR', 'XR', 'RR', 'RX', 'MMM', 'FFF', 'OOO', 'XXX', 'FMF', 'MXM', 'FXF', 'MMF', 'MFF']
    out = []
    for s in base + d3 + extra:
        if s not in out:
            out.append(s)
    return out

SOURCES = ['V', 'S', 'R', 'E', 'U', 'D', 'C', 'L', 'B', 'd', 'A', 'I', 'W']
REDUCED = 'DCLBdAIW'
DEQUE_SHAPES = ['', 'M', 'F', 'X', 'O', 'MF', 'XF', 'OF', 'FX']

def gen_fn(src, shape):
    name = f"run_{src}_{shape or 'none'}"
    L = []
    L.append(f"fn {name}<'a>(ctx: &'a Ctx, term: Term) -> Obs {{")
    elem = "Item"
    if src == 'V':
        L.append("    let src: Vec<Item> = make_owned(ctx);")
        L.append("    let p = src.into_par();")
    elif src == 'S':
        elem = "&'a Item"
        L.append("    let p = AsPar::par(&ctx.src_items);")
    elif src == 'R':
        L.append("    let p = (0..ctx.case.len).into_par();")
    elif src in 'EU':
        L.append(f"    let p = IterIntoPar::par(Probe::new(ctx, {'true' if src == 'E' else 'false'}));")
    elif src == 'D':
        L.append("    let src: std::collections::VecDeque<Item> = make_owned(ctx).into();")
        L.append("    let p = src.into_par();")
    elif src == 'C':
        L.append("    let p = AsPar::par(&ctx.src_items);")
    elif src == 'L':
        L.append("    let src: std::collections::LinkedList<Item> = make_owned(ctx).into_iter().collect();")
        L.append("    let p = src.into_par();")
    elif src == 'B':
        L.append("    let src: std::collections::BTreeSet<Item> = make_owned(ctx).into_iter().collect();")
        L.append("    let p = src.into_par();")
    elif src == 'd':
        elem = "&'a Item"
        L.append("    let p = AsPar::par(&ctx.src_deque);")
    elif src == 'A':
        elem = "&'a Item"
        L.append("    let arr: &'a [Item; 8] = ctx.src_items[..].try_into().expect(\"array source needs 8 items\");")
        L.append("    let p = AsPar::par(arr);")
    elif src == 'I':
        L.append("    let src: Vec<Item> = make_owned(ctx);")
        L.append("    let it = src.into_con_iter();")
        L.append("    for _ in 0..ctx.case.pre_consumed {")
        L.append("        let _ = orx_concurrent_iter::ConcurrentIterX::next(&it);")
        L.append("    }")
        L.append("    let p = it.into_par();")
    elif src == 'W':
        elem = "&'a Item"
        L.append("    let sl: &'a [Item] = &ctx.src_items[..];")
        L.append("    let p = IntoPar::into_par(sl);")
    L.append("    ctx.record_step(0, \"source\", p.params());")
    L.append("    let p = apply_source_params(p, ctx);")
    state, opaque = 'E', False
    if src == 'R':
        L.append("    let p = p.map(mk_lift(ctx));")
        state = 'M'
    if src == 'C':
        # cloned() is a trait-provided map returning `impl Par`
        L.append("    let p = p.cloned();")
        state = 'M'
        opaque = True
    L.append("    let p = apply_setters(p, ctx, 0);")
    L.append("    ctx.record_step(1, \"source-params\", p.params());")
    cuts, labels = [], []
    for i, k in enumerate(shape):
        op = OP_OF[k]
        label = f"{TNAME[state]}::{METHOD[op]}"
        nstate, eager, opq = TR[(state, op)]
        if eager:
            cuts.append(i)
        labels.append(label)
        if k == 'M':
            L.append(f"    let p = p.map(mk_map::<{elem}>(ctx, {i}));")
            elem = "Item"
        elif k == 'F':
            L.append(f"    let p = p.filter(mk_filter::<{elem}>(ctx, {i}));")
        elif k == 'X':
            L.append(f"    let p = p.flat_map(mk_flat_map::<{elem}>(ctx, {i}));")
            elem = "Item"
        elif k == 'O':
            L.append(f"    let p = p.filter_map(mk_filter_map_o::<{elem}>(ctx, {i}));")
            elem = "Item"
        elif k == 'R':
            L.append(f"    let p = p.filter_map(mk_filter_map_r::<{elem}>(ctx, {i}));")
            elem = "Item"
        state = nstate
        opaque = opaque or bool(opq)
        L.append(f"    let p = apply_setters(p, ctx, {i + 1});")
        L.append(f"    ctx.record_step({i + 2}, \"{label}\", p.params());")
    # an index is checked only where an output corresponds to one source position: no upstream materialisation
    has_index = (state in HAS_INDEX) and not opaque and not cuts
    L.append("    ctx.begin_terminal();")
    if has_index:
        L.append("    match term {")
        L.append(f"        Term::FindIdx => idx_obs::<{elem}>(p.find_with_index(mk_pred::<{elem}>(ctx))),")
        L.append(f"        Term::FirstIdx => idx_obs::<{elem}>(p.first_with_index()),")
        L.append(f"        t => drive::<{elem}, _>(p, ctx, t),")
        L.append("    }")
    else:
        L.append(f"    drive::<{elem}, _>(p, ctx, term)")
    L.append("}")
    info = dict(src=src, shape=shape, name=name, cuts=cuts, labels=labels, has_index=has_index,
                final=TNAME[state], ref_elem=(elem != "Item"))
    return "\n".join(L), info

NUM_TABS = 16

def main(root):
    import os, shutil
    items = []
    for src in SOURCES:
        for sh in shapes():
            if src in REDUCED and sh not in DEQUE_SHAPES:
                continue
            code, info = gen_fn(src, sh)
            # rough cost: deeper chains instantiate more
            items.append((len(sh) + 1, code, info))
    # balance over NUM_TABS crates (longest-processing-time first)
    items.sort(key=lambda t: -t[0])
    bins = [[] for _ in range(NUM_TABS)]
    load = [0] * NUM_TABS
    for it in items:
        k = load.index(min(load))
        bins[k].append(it)
        load[k] += it[0]
    tabs = os.path.join(root, 'tabs')
    if os.path.isdir(tabs):
        shutil.rmtree(tabs)
    names = []
    for k, b in enumerate(bins):
        name = f"tab{k:02d}"
        names.append(name)
        d = os.path.join(tabs, name)
        os.makedirs(os.path.join(d, 'src'))
        open(os.path.join(d, 'Cargo.toml'), 'w').write(f"""[package]
name = "{name}"
version = "0.1.0"
edition = "2021"
publish = false

[dependencies]
vhc = {{ path = "../../core" }}
orx-parallel = {{ path = "/repo", features = ["verif-hooks"] }}
orx-concurrent-iter = "1.30"
""")
        o = []
        o.append("// @generated by tools/gen_table.py -- do not edit")
        o.append("#![allow(non_snake_case, unused_imports, clippy::all)]")
        o.append("use orx_concurrent_iter::IntoConcurrentIter;")
        o.append("use orx_parallel::prelude::*;")
        o.append("use vhc::case::*;")
        o.append("use vhc::ctx::Ctx;")
        o.append("use vhc::drive::*;")
        o.append("use vhc::item::Item;")
        o.append("use vhc::stage::*;")
        o.append("use vhc::{make_owned, ShapeInfo};")
        o.append("")
        b.sort(key=lambda t: (t[2]['src'], t[2]['shape']))
        for _, code, _info in b:
            o.append(code)
            o.append("")
        o.append("pub static SHAPES: &[ShapeInfo] = &[")
        for _, _code, i in b:
            cuts = ", ".join(str(c) for c in i['cuts'])
            labels = ", ".join('"%s"' % l for l in i['labels'])
            o.append(f"    ShapeInfo {{ src: '{i['src']}', shape: \"{i['shape']}\", cuts: &[{cuts}], labels: &[{labels}], "
                     f"has_index: {'true' if i['has_index'] else 'false'}, final_type: \"{i['final']}\", "
                     f"ref_elem: {'true' if i['ref_elem'] else 'false'}, run: {i['name']} }},")
        o.append("];")
        open(os.path.join(d, 'src', 'lib.rs'), 'w').write("\n".join(o) + "\n")
    # the aggregate, included by the vh binary
    agg = ["// @generated by tools/gen_table.py -- do not edit", "use vhc::ShapeInfo;", "",
           "pub fn all_shapes() -> Vec<&'static ShapeInfo> {", "    let mut v: Vec<&'static ShapeInfo> = vec![];"]
    for n in names:
        agg.append(f"    v.extend({n}::SHAPES.iter());")
    agg.append("    v")
    agg.append("}")
    open(os.path.join(root, 'vh', 'src', 'tables.rs'), 'w').write("\n".join(agg) + "\n")
    deps = "\n".join(f'{n} = {{ path = "../tabs/{n}" }}' for n in names)
    open(os.path.join(root, 'vh', 'Cargo.toml'), 'w').write(f"""[package]
name = "vh"
version = "0.1.0"
edition = "2021"
publish = false

[dependencies]
vhc = {{ path = "../core" }}
orx-parallel = {{ path = "/repo", features = ["verif-hooks"] }}
{deps}

[features]
small-tables = ["vhc/small-tables"]
""")
    print(f"{len(items)} pipelines, {len(shapes())} shapes, {NUM_TABS} table crates, loads {load}")

if __name__ == '__main__':
    main(sys.argv[1] if len(sys.argv) > 1 else '/verif/harness')
