#!/usr/bin/env python3
"""Prints the catch matrix (markdown) from /verif/seeded/*/meta.json and /verif/seeded/own_results.json."""
import glob, json, os
rows = []
for d in sorted(glob.glob('/verif/seeded/*/meta.json')):
    m = json.load(open(d))
    checks = m.get('checks', {})
    res = []
    for k, v in sorted(checks.items()):
        first = (v.get('first') or [''])[0]
        key = first.split(']')[0].split('[')[-1] if '[' in first else ''
        res.append("%s: %s%s" % (k, 'caught' if v['exit'] == 1 else ('MISSED' if v['exit'] == 0 else 'broken(%d)' % v['exit']), (' (' + key + ')') if key else ''))
    summ = (m.get('summary') or '').strip().replace('\n', ' ')
    if len(summ) > 230:
        summ = summ[:230] + '…'
    rows.append("| %s | %s | %s | %s |" % (m['id'], m['property'], summ.replace('|', '/'), '; '.join(res)))
print("| id | property | change (agent's summary) | checks run against it |")
print("|---|---|---|---|")
print("\n".join(rows))
p = '/verif/seeded/own_results.json'
if os.path.exists(p):
    own = json.load(open(p))
    print()
    print("| hand-made breakage | what | result |")
    print("|---|---|---|")
    for k, v in sorted(own.items()):
        print("| %s | %s | %s |" % (k, v.get('note', ''), ', '.join('%s: %s' % (p, 'caught' if r == 1 else ('silent' if r == 0 else 'broken')) for p, r in v.get('results', {}).items())))
