#!/usr/bin/env python3
"""Prints the catch matrix (markdown) from /verif/seeded/*/meta.json and /verif/seeded/own_results.json."""
import glob, json, os, sys, io, re
_out = io.StringIO()
_real_print = print
def print(*a, **k):
    _real_print(*a, file=_out, **k)
rows = []
for d in sorted(glob.glob('/verif/seeded/*/meta.json')):
    m = json.load(open(d))
    checks = m.get('checks', {})
    res = []
    for k, v in sorted(checks.items()):
        first = (v.get('first') or [''])[0]
        key = first.split(']')[0].split('[')[-1] if '[' in first else ''
        res.append("%s: %s%s" % (k, 'caught' if v['exit'] == 1 else (('MISSED' if k.startswith(m['property']) else 'silent') if v['exit'] == 0 else 'broken(%d)' % v['exit']), (' (' + key + ')') if key else ''))
    summ = (m.get('summary') or '').strip().replace('\n', ' ')
    if len(summ) > 230:
        summ = summ[:230] + '…'
    rows.append("| %s | %s | %s | %s |" % (m['id'], m['property'], summ.replace('|', '/'), '; '.join(res)))
print("| id | property | change (agent's summary) | checks run against it |")
print("|---|---|---|---|")
print("\n".join(rows))
p = '/verif/seeded/own_results.json'
if os.path.exists(p):
    own = json.load(open(p))
    print()
    print("| hand-made breakage | what | result |")
    print("|---|---|---|")
    for k, v in sorted(own.items()):
        print("| %s | %s | %s |" % (k, v.get('note', ''), ', '.join('%s: %s' % (p, 'caught' if r == 1 else ('silent' if r == 0 else 'broken')) for p, r in v.get('results', {}).items())))

text = _out.getvalue()
if '--update-design' in sys.argv:
    d = open('/verif/DESIGN.md').read()
    d = re.sub(r'(<!-- MATRIX-BEGIN[^>]*-->\n).*?(<!-- MATRIX-END -->)', lambda m: m.group(1) + text + m.group(2), d, flags=re.S)
    n = len(rows)
    caught = sum(1 for r in rows if re.search(r'\| (C\d\d) \|.*\1/quick: caught', r))
    d = re.sub(r'<!-- COUNT -->.*?<!-- /COUNT -->', '<!-- COUNT -->%d of the %d independent seeded defects listed below are caught by the quick tier.<!-- /COUNT -->' % (caught, n), d, flags=re.S)
    open('/verif/DESIGN.md', 'w').write(d)
    _real_print('DESIGN.md updated: %d/%d' % (caught, n))
else:
    _real_print(text)
