#!/usr/bin/env python3
"""Hand-made breakages used while validating the monitors (DESIGN.md 6b).  Not the seeded defects written by
independent sub-agents (those live in /verif/seeded/<id>/).

  ownmut.py list
  ownmut.py diff <name>            print the patch
  ownmut.py check <name> [props]   apply to /repo, run ./vcheck <prop> --tier quick for each prop, undo
  ownmut.py suite <name>           apply in a scratch worktree (/tmp/own_mut) and run the repository's test suite there
"""
import os
import subprocess
import sys

REPO = "/repo"

M = {
    # name: (file, old, new, properties expected to fire, note)
    "c01_merge_assumes_thread0_first": (
        "src/core/map_fil_col.rs",
        """    for (v, vec) in vectors.iter().enumerate() {
        if let Some(x) = vec.get(indices[v]) {
            queue.push(v, x.0);
        }
    }
    let mut curr_v = queue.pop_node();

    while let Some(v) = curr_v {
        let idx = indices[v];
        indices[v] += 1;

        curr_v = match vectors[v].get(indices[v]) {
            Some(x) => Some(queue.push_then_pop(v, x.0).0),
            None => queue.pop_node(),
        };

        let ptr = vectors[v].as_mut_ptr();
        output.push(unsafe { ptr.add(idx).read().1 });
    }

    for vec in vectors.iter_mut() {
        unsafe { vec.set_len(0) };
    }
}

pub(crate) fn heap_sort_into_pinned_vec""",
        """    // the first spawned thread pulls the first chunk: start from it and queue the rest
    for (v, vec) in vectors.iter().enumerate().skip(1) {
        if let Some(x) = vec.get(indices[v]) {
            queue.push(v, x.0);
        }
    }
    let mut curr_v = match vectors.first().map(|x| x.is_empty()) {
        Some(false) => Some(0),
        _ => queue.pop_node(),
    };

    while let Some(v) = curr_v {
        let idx = indices[v];
        indices[v] += 1;

        curr_v = match vectors[v].get(indices[v]) {
            Some(x) => Some(queue.push_then_pop(v, x.0).0),
            None => queue.pop_node(),
        };

        let ptr = vectors[v].as_mut_ptr();
        output.push(unsafe { ptr.add(idx).read().1 });
    }

    for vec in vectors.iter_mut() {
        unsafe { vec.set_len(0) };
    }
}

pub(crate) fn heap_sort_into_pinned_vec""",
        ["C01"],
        "ordered merge into Vec assumes the first-spawned worker holds the smallest key",
    ),
    "c02_find_keeps_first_joined": (
        "src/core/map_fil_find.rs",
        "maybe_reduce(|a, b| if b.0 < a.0 { b } else { a }, a, b)",
        "maybe_reduce(|a, _b| a, a, b)",
        ["C02"],
        "find keeps the match of the first-joined (= first spawned) thread instead of the smallest index",
    ),
    "c03_chunk_none_resets_acc": (
        "src/core/map_fil_red.rs",
        "                acc = maybe_reduce(reduce, acc, x);",
        "                acc = match x {\n                    None => None,\n                    x => maybe_reduce(reduce, acc, x),\n                };",
        ["C03"],
        "a chunk that filters to nothing resets the thread accumulator",
    ),
    "c04_filtermap_count_inner_off": (
        "src/core/filtermap_fil_cnt.rs",
        "                acc += x;",
        "                acc = acc.max(x) + if acc > 0 && x > 0 { acc.min(x) } else { 0 };",
        [],
        "(equivalent rewrite; sanity check that checks stay silent)",
    ),
    "c05_filter_order_swapped": (
        "src/par/par_fil.rs",
        "let composed_filter = move |x: &I::Item| filter1(x) && filter(x);",
        "let composed_filter = move |x: &I::Item| filter(x) && filter1(x);",
        ["C05"],
        "composed filters evaluated in the wrong order: the second filter sees elements the first rejects",
    ),
    "c05_filtermap_value_twice": (
        "src/par/par_fil.rs",
        """        let composed_filter_map = move |x| match filter(&x) {
            false => None,
            true => Some(map(x)),
        };""",
        """        let composed_filter_map = move |x| match filter(&x) && filter(&x) {
            false => None,
            true => Some(map(x)),
        };""",
        ["C05"],
        "filter evaluated twice per element in ParFilter::map",
    ),
    "c08_spawn_limit_off_by_one": (
        "src/core/runner.rs",
        """    pub fn do_spawn(&self, num_spawned: usize, has_more: HasMore) -> bool {
        match num_spawned {
            x if x >= self.max_num_threads - 1 => false,""",
        """    pub fn do_spawn(&self, num_spawned: usize, has_more: HasMore) -> bool {
        match num_spawned {
            x if x >= self.max_num_threads => false,""",
        ["C08"],
        "one worker too many",
    ),
    "c09_seq_reduce_swapped_args": (
        "src/core/map_fil_red.rs",
        "    iter.into_seq_iter().map(map).filter(filter).reduce(reduce)",
        "    iter.into_seq_iter().map(map).filter(filter).reduce(|a, b| reduce(b, a))",
        ["C09"],
        "sequential reduce passes its operands swapped",
    ),
    "c10_no_skip_to_end_filtermap_chunk": (
        "src/core/filtermap_fil_find.rs",
        """                if result.is_some() {
                    iter.skip_to_end();
                    return result;
                }""",
        """                if result.is_some() {
                    return result;
                }""",
        ["C10"],
        "the chunked filter_map find branch forgets skip_to_end",
    ),
    "c10_no_skip_to_end_map_c1": (
        "src/core/map_fil_find.rs",
        """            if result.is_some() {
                iter.skip_to_end();
            }

            result""",
        """            result""",
        ["C10"],
        "the chunk-size-1 map find branch forgets skip_to_end",
    ),
    "c11_exact_grows_like_min": (
        "src/core/runner.rs",
        "                ResolvedChunkSize::Exact(x) => Some(x),\n                ResolvedChunkSize::Min(x) => {",
        "                ResolvedChunkSize::Exact(x) | ResolvedChunkSize::Min(x) => {",
        ["C11"],
        "Exact chunk sizes grow like Min for workers spawned after a lag period",
    ),
    "c12_filter_map_drops_params": (
        "src/par/par_filtermap_fil.rs",
        None,
        None,
        ["C12"],
        "ParFilterMapFilter::filter_map passes Params::default() on",
    ),
    "c13_no_set_len_pinned": (
        "src/core/map_fil_col.rs",
        """        output.push(unsafe { ptr.add(idx).read().1 });
    }

    for vec in vectors.iter_mut() {
        unsafe { vec.set_len(0) };
    }
}

pub fn par_map_fil_col_vec""",
        """        output.push(unsafe { ptr.add(idx).read().1 });
    }
}

pub fn par_map_fil_col_vec""",
        ["C13"],
        "merge into a pinned vec forgets set_len(0): every merged element is dropped twice",
    ),
    "c14_join_ok": (
        "src/core/runner.rs",
        """            let mut vec = vec![];
            for x in handles {
                vec.push(x.join().expect("failed to join the thread"));
            }
            vec""",
        """            let mut vec = vec![];
            for x in handles {
                if let Ok(x) = x.join() {
                    vec.push(x);
                }
            }
            vec""",
        ["C14"],
        "run_map swallows the result of a panicked worker",
    ),
    "c15_div_floor": (
        "src/core/runner_settings/chunk_size.rs",
        "                Ordering::Greater => div_ceil(len, max_num_threads),",
        "                Ordering::Greater => len / max_num_threads,",
        [],
        "min_chunk_size rounds down instead of up: turned out to be equivalent for the properties (max_num_threads <= len, so the quotient is >= 1; only the chunk size changes) - the checks must stay silent",
    ),
    "own_hashmap_into_par_drops_first": (
        "src/into/into_par.rs",
        """        type ConIter = ConIterOfIter<(K, V), std::collections::hash_map::IntoIter<K, V>>;
        fn into_par(self) -> ParEmpty<Self::ConIter> {
            ParEmpty::new(self.into_iter().into_con_iter())""",
        """        type ConIter = ConIterOfIter<(K, V), std::collections::hash_map::IntoIter<K, V>>;
        fn into_par(self) -> ParEmpty<Self::ConIter> {
            let mut iter = self.into_iter();
            let _ = iter.next();
            ParEmpty::new(iter.into_con_iter())""",
        ["C01", "C04"],
        "HashMap::into_par loses the first entry (a source kind covered only by the plain-type probes)",
    ),
    "c07_colx_drops_empty_run": (
        "src/core/map_fil_col_x.rs",
        "    output.append(vectors);",
        "    let mut vectors = vectors;\n    if vectors.first().map(|v| v.is_empty()).unwrap_or(false) {\n        vectors.truncate(1);\n    }\n    output.append(vectors);",
        ["C07"],
        "collect_x drops everything when the first-spawned worker came back empty",
    ),
}


def fill():
    src = open(os.path.join(REPO, "src/par/par_filtermap_fil.rs")).read()
    # ParFilterMapFilter::filter_map: pass default params on
    key = "    fn filter_map<O2, FO2, FM>("
    i = src.index(key)
    j = src.index("ParFilterMap::new(iter, params, composed_filter_map)", i)
    old = src[j:j + len("ParFilterMap::new(iter, params, composed_filter_map)")]
    M["c12_filter_map_drops_params"] = (
        "src/par/par_filtermap_fil.rs",
        None,
        None,
        ["C12"],
        "ParFilterMapFilter::filter_map passes Params::default()",
    )
    return (j, old)


REVERTS = {"revert_fix_c06": ("d255248", ["C06"], "the pinned tree's C06 defect (Vec::collect_into discards the target for unknown-length sources)"),
           "revert_fix_c14": ("fd1e860", ["C14"], "the pinned tree's C14 defect (partially filled ordered bag dropped on unwinding)")}
for _k, _v in REVERTS.items():
    M[_k] = (None, None, None, _v[1], "git revert of fix commit %s: %s" % (_v[0], _v[2]))




def _save_evidence():
    """checks rewrite /verif/evidence/<id>.json on every run: keep the committed files while a defect is applied"""
    import shutil, tempfile
    d = tempfile.mkdtemp(prefix="evidence_keep_")
    shutil.copytree("/verif/evidence", d + "/evidence")
    return d


def _restore_evidence(d):
    import shutil
    shutil.rmtree("/verif/evidence", ignore_errors=True)
    shutil.copytree(d + "/evidence", "/verif/evidence")
    shutil.rmtree(d, ignore_errors=True)


def apply(name, root=REPO):
    if name in REVERTS:
        d = subprocess.run(["git", "-C", root, "show", REVERTS[name][0], "--", "src"], stdout=subprocess.PIPE, text=True, check=True).stdout
        subprocess.run(["git", "-C", root, "apply", "-R", "-"], input=d, text=True, check=True)
        return
    f, old, new, _, _ = M[name]
    path = os.path.join(root, f)
    s = open(path).read()
    if name == "c12_filter_map_drops_params":
        key = "    fn filter_map<O2, FO2, FM>("
        i = s.index(key)
        tgt = "ParFilterMap::new(iter, params, composed_filter_map)"
        j = s.index(tgt, i)
        s = s[:j] + "ParFilterMap::new(iter, Params::default(), composed_filter_map)" + s[j + len(tgt):]
    else:
        assert s.count(old) >= 1, "pattern not found for " + name
        s = s.replace(old, new, 1)
    open(path, "w").write(s)


def revert(root=REPO):
    subprocess.run(["git", "-C", root, "checkout", "--", "."], check=True)


def main():
    a = sys.argv[1:]
    if not a or a[0] == "list":
        for k, v in M.items():
            print("%-40s %-12s %s" % (k, ",".join(v[3]), v[4]))
        return 0
    if a[0] == "diff":
        apply(a[1])
        subprocess.run(["git", "-C", REPO, "diff"])
        revert()
        return 0
    if a[0] == "check":
        name = a[1]
        props = a[2:] or M[name][3]
        apply(name)
        rc_all = {}
        keep = _save_evidence()
        try:
            for p in props:
                r = subprocess.run(["/verif/vcheck", p, "--tier", "quick"], stdout=subprocess.PIPE, stderr=subprocess.STDOUT, text=True)
                rc_all[p] = r.returncode
                tail = [l for l in r.stdout.splitlines() if not l.startswith("KNOWN-FINDING")]
                print("\n".join(l[:300] for l in tail[-6:]))
        finally:
            revert()
            _restore_evidence(keep)
        print("RESULT %s %s" % (name, rc_all))
        import json
        rp = "/verif/seeded/own_results.json"
        try:
            allr = json.load(open(rp))
        except Exception:
            allr = {}
        allr[name] = {"note": M[name][4], "file": M[name][0], "results": rc_all}
        json.dump(allr, open(rp, "w"), indent=1, sort_keys=True)
        return 0
    if a[0] == "suite":
        name = a[1]
        wt = "/tmp/own_mut"
        if not os.path.isdir(wt):
            subprocess.run(["git", "-C", REPO, "worktree", "add", "--detach", wt, "HEAD"], check=True)
        revert(wt)
        apply(name, wt)
        env = dict(os.environ, CARGO_TARGET_DIR=wt + "/target", CARGO_NET_OFFLINE="true")
        r = subprocess.run(["cargo", "test", "--offline"], cwd=wt, env=env, stdout=subprocess.PIPE, stderr=subprocess.STDOUT, text=True)
        lines = [l for l in r.stdout.splitlines() if l.startswith("test result") or "FAILED" in l or "failed" in l]
        print("\n".join(lines[-25:]))
        print("SUITE %s rc=%d" % (name, r.returncode))
        revert(wt)
        return 0


if __name__ == "__main__":
    sys.exit(main())
