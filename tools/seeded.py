#!/usr/bin/env python3
"""Handling of seeded defects written by independent sub-agents.

  seeded.py intake <ID> <agent OUT dir> <property>   copy patch/demo/meta into /verif/seeded/<ID>/ and confirm the
                                                     agent's claims in a scratch worktree (suite passes with the change,
                                                     demo fails with it and passes without it)
  seeded.py run <ID> [props...] [--tier quick]       apply the patch to /repo, run the checks, undo it
  seeded.py runall [--tier quick]                    the same for every kept seeded defect (its own property only)
"""
import glob
import json
import os
import shutil
import subprocess
import sys
import time

REPO = "/repo"
SEEDED = "/verif/seeded"
WT = "/tmp/verify_wt"


def sh(cmd, cwd=None, env=None, timeout=3600):
    e = dict(os.environ)
    e["CARGO_NET_OFFLINE"] = "true"
    if env:
        e.update(env)
    r = subprocess.run(cmd, cwd=cwd, env=e, stdout=subprocess.PIPE, stderr=subprocess.STDOUT, text=True, timeout=timeout)
    return r.returncode, r.stdout


def ensure_wt():
    if not os.path.isdir(WT):
        rc, out = sh(["git", "-C", REPO, "worktree", "add", "--detach", WT, "HEAD"])
        assert rc == 0, out
    sh(["git", "-C", WT, "checkout", "--detach", subprocess.run(["git", "-C", REPO, "rev-parse", "HEAD"], stdout=subprocess.PIPE, text=True).stdout.strip()])
    sh(["git", "-C", WT, "checkout", "--", "."])
    sh(["git", "-C", WT, "clean", "-fdq", "--", "tests", "src"])


def summarize_tests(out):
    passed = failed = 0
    for l in out.splitlines():
        if l.startswith("test result:"):
            parts = l.split()
            try:
                passed += int(parts[3])
                failed += int(parts[5])
            except Exception:
                pass
    return passed, failed


def intake(mid, outdir, prop):
    d = os.path.join(SEEDED, mid)
    os.makedirs(d, exist_ok=True)
    shutil.copy(os.path.join(outdir, "patch.diff"), os.path.join(d, "patch.diff"))
    demos = [f for f in glob.glob(os.path.join(outdir, "*.rs"))]
    assert demos, "no demonstration"
    demo = demos[0]
    demo_name = os.path.basename(demo)
    shutil.copy(demo, os.path.join(d, demo_name))
    agent_meta = {}
    try:
        agent_meta = json.load(open(os.path.join(outdir, "meta.json")))
    except Exception as ex:
        agent_meta = {"error": "agent meta.json unreadable: %s" % ex}
    ensure_wt()
    env = {"CARGO_TARGET_DIR": WT + "/target"}
    conf = {}
    # 1. patch applies
    rc, out = sh(["git", "-C", WT, "apply", os.path.join(d, "patch.diff")])
    conf["patch_applies"] = rc == 0
    if rc != 0:
        print(out)
    # 2. suite with the change
    t0 = time.time()
    rc, out = sh(["cargo", "test", "--offline"], cwd=WT, env=env)
    p, f = summarize_tests(out)
    conf["suite_with_change"] = {"rc": rc, "passed": p, "failed": f, "secs": round(time.time() - t0)}
    if rc != 0:
        print(out[-3000:])
    # 3. demo with the change
    shutil.copy(demo, os.path.join(WT, "tests", demo_name))
    tname = demo_name[:-3]
    runs = []
    for _ in range(3):
        rc, out = sh(["cargo", "test", "--offline", "--test", tname], cwd=WT, env=env)
        runs.append(rc)
    conf["demo_with_change_rcs"] = runs
    # 4. demo without the change
    sh(["git", "-C", WT, "checkout", "--", "src"])
    runs = []
    for _ in range(3):
        rc, out = sh(["cargo", "test", "--offline", "--test", tname], cwd=WT, env=env)
        runs.append(rc)
    conf["demo_without_change_rcs"] = runs
    if any(runs):
        print(out[-2000:])
    os.remove(os.path.join(WT, "tests", demo_name))
    ok = (conf["patch_applies"] and conf["suite_with_change"]["rc"] == 0 and all(r != 0 for r in conf["demo_with_change_rcs"][:1])
          and sum(1 for r in conf["demo_with_change_rcs"] if r != 0) >= 2 and all(r == 0 for r in conf["demo_without_change_rcs"]))
    meta = {
        "id": mid,
        "property": prop,
        "origin": "written by an independent sub-agent that saw only the property text and a scratch worktree",
        "summary": agent_meta.get("summary"),
        "needs_to_manifest": agent_meta.get("needs"),
        "files_changed": agent_meta.get("files_changed"),
        "demonstration": demo_name,
        "agent_claims": {k: agent_meta.get(k) for k in ("suite_result_with_change", "demo_with_change", "demo_without_change", "deterministic")},
        "confirmed_by_me": conf,
        "confirmed": ok,
        "what_i_ran": [
            "git apply patch.diff in a scratch worktree of /repo HEAD",
            "cargo test --offline (whole suite, feature off) with the change",
            "cargo test --offline --test %s x3 with the change (must fail)" % tname,
            "git checkout -- src; same demo x3 without the change (must pass)",
        ],
        "checks": {},
    }
    json.dump(meta, open(os.path.join(d, "meta.json"), "w"), indent=1)
    print(json.dumps(conf, indent=1))
    print("CONFIRMED" if ok else "NOT CONFIRMED", mid)
    return 0 if ok else 1




def _save_evidence():
    """checks rewrite /verif/evidence/<id>.json on every run: keep the committed files while a defect is applied"""
    import shutil, tempfile
    d = tempfile.mkdtemp(prefix="evidence_keep_")
    shutil.copytree("/verif/evidence", d + "/evidence")
    return d


def _restore_evidence(d):
    import shutil
    shutil.rmtree("/verif/evidence", ignore_errors=True)
    shutil.copytree(d + "/evidence", "/verif/evidence")
    shutil.rmtree(d, ignore_errors=True)


def run(mid, props, tier):
    d = os.path.join(SEEDED, mid)
    meta = json.load(open(os.path.join(d, "meta.json")))
    props = props or [meta["property"]]
    rc, out = sh(["git", "-C", REPO, "status", "--porcelain", "--untracked-files=no"])
    assert out.strip() == "", "/repo has uncommitted changes"
    rc, out = sh(["git", "-C", REPO, "apply", os.path.join(d, "patch.diff")])
    assert rc == 0, out
    res = {}
    keep = _save_evidence()
    try:
        for p in props:
            t0 = time.time()
            rc, out = sh(["/verif/vcheck", p, "--tier", tier])
            lines = [l for l in out.splitlines() if not l.startswith("KNOWN-FINDING")]
            first_v = [l for l in lines if l.strip().startswith(p + " [")][:2]
            res[p] = {"exit": rc, "secs": round(time.time() - t0), "first": [l.strip()[:300] for l in first_v]}
            print("%s %s -> exit %d (%ds)" % (mid, p, rc, res[p]["secs"]))
            for l in first_v:
                print("    " + l.strip()[:300])
    finally:
        sh(["git", "-C", REPO, "checkout", "--", "."])
        _restore_evidence(keep)
    meta.setdefault("checks", {})
    for p, r in res.items():
        meta["checks"]["%s/%s" % (p, tier)] = r
    json.dump(meta, open(os.path.join(d, "meta.json"), "w"), indent=1)
    return res


def main():
    a = sys.argv[1:]
    tier = "quick"
    if "--tier" in a:
        i = a.index("--tier")
        tier = a[i + 1]
        a = a[:i] + a[i + 2:]
    if a[0] == "intake":
        return intake(a[1], a[2], a[3])
    if a[0] == "run":
        run(a[1], a[2:], tier)
        return 0
    if a[0] == "runall":
        for d in sorted(glob.glob(os.path.join(SEEDED, "*"))):
            if os.path.exists(os.path.join(d, "meta.json")):
                run(os.path.basename(d), [], tier)
        return 0


if __name__ == "__main__":
    sys.exit(main())
