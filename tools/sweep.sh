#!/bin/sh
# usage: tools/sweep.sh <tier> <seed>...   runs every check at the given seeds, prints one line per run
tier=$1; shift
cd "$(dirname "$0")/.."
for seed in "$@"; do
  for p in C01 C02 C03 C04 C05 C06 C07 C08 C09 C10 C11 C12 C13 C14 C15 C16; do
    s=$(date +%s)
    VERIF_SEED=$seed ./vcheck $p --tier $tier > work_sweep_$p.log 2>&1
    rc=$?
    echo "seed=$seed $p rc=$rc $(( $(date +%s)-s ))s $(grep -c VIOLATION work_sweep_$p.log) $(grep -E 'BROKEN|VIOLATION' work_sweep_$p.log | head -2 | cut -c1-200)"
  done
done
