#!/bin/sh
# runs every check's thorough tier in /verif (against /repo itself) and records status lines
cd "$(dirname "$0")/.."
mkdir -p work
: > work/thorough_summary.txt
for p in "$@"; do
  s=$(date +%s)
  ./vcheck $p --tier thorough > work/thorough_$p.log 2>&1
  rc=$?
  echo "$p rc=$rc $(( $(date +%s)-s ))s $(grep -E 'VIOLATION|BROKEN' work/thorough_$p.log | head -2 | cut -c1-200)" >> work/thorough_summary.txt
done
echo ALLDONE >> work/thorough_summary.txt
