"""Library behind /verif/vcheck: builds the harness against /repo's working tree, fans a property's case space
out over worker processes (plain, Miri, ASan, TSan builds), merges their reports, applies the known-findings
filter, writes evidence and replay files, and decides the exit status.  Python stdlib only."""
import fcntl
import glob
import hashlib
import json
import os
import re
import shutil
import signal
import subprocess
import sys
import time

ENV_BASE = dict(os.environ)
ENV_BASE["CARGO_NET_OFFLINE"] = "true"
ENV_BASE.setdefault("CARGO_TERM_COLOR", "never")

# ------------------------------------------------------------------------------------------------------------
# per-property metadata

LEVEL = {p: "exploration" for p in ["C%02d" % i for i in range(1, 17)]}
LEVEL["C14"] = "fault_enumeration"

RULES = {
    "C01": "seeded generation over (source kind x chain shape x ordered-collect terminal x num_threads x chunk_size x input) in modes S (deterministic scheduler), F (free-running with injected delays), Q (sequential); result compared element by element with the std::iter reference model. non-trivial: >= 2 worker threads each executed closures (or mode Q); distinct: (configuration class, position-to-thread assignment signature)",
    "C02": "seeded generation over short-circuit terminals (find, first, any, all, *_with_index) with position-set predicates; result compared with Iterator::find/any/all on the reference model. non-trivial: >= 2 worker threads executed closures (or mode Q); distinct: (configuration class, interleaving signature); extra counts runs in which two threads each found a match and spawn order differs from position order",
    "C03": "seeded generation over the reduce family with a recording operator (multiset union of contributing ids); contributions compared with the reference model's survivors. non-trivial: >= 2 worker threads executed closures (or mode Q); distinct: (configuration class, interleaving signature)",
    "C04": "seeded generation over count / for_each; count and the multiset of for_each arguments compared with the reference model. non-trivial: >= 2 worker threads executed closures (or mode Q); distinct: (configuration class, interleaving signature)",
    "C05": "seeded generation over all terminals; multiset of (stage, argument id) closure calls compared with the reference model's sequential call multiset (at most once + subset for short-circuit terminals); instrumented by-value iterator source checks re-entrancy of next() and that every yielded element reaches the first stage exactly once. non-trivial: >= 2 worker threads executed closures (or mode Q); distinct: (configuration class, interleaving signature)",
    "C06": "seeded generation over collect_into targets (Vec, FixedVec, SplitVec<Doubling>, SplitVec<Linear>) with non-empty previous contents; result must be previous contents ++ reference model. non-trivial: >= 2 worker threads executed closures (or mode Q); distinct: (configuration class, interleaving signature)",
    "C07": "seeded generation over collect_x; sorted result compared with the sorted reference model. non-trivial: >= 2 worker threads executed closures (or mode Q); distinct: (configuration class, interleaving signature)",
    "C08": "seeded generation with NumThreads::Max(n) set on the source, n in 1..8,16; gauges of concurrently active closures and live workers (hooks), sets of thread ids per closure. non-trivial: n = 1, or >= 2 worker threads executed closures; distinct: (configuration class, interleaving signature); extra counts how often the bound n was reached",
    "C09": "seeded generation in sequential mode (num_threads(1)) over all terminals and chunk-size settings; per-stage argument sequences, results and the parenthesisation of reduce/fold compared with the std::iter reference model. non-trivial: input of >= 2 elements and >= 2 closure calls; distinct: configuration class",
    "C10": "seeded generation of short-circuit terminals over long and endless sources with a match at a chosen position; mode S decides the bound (work by other threads after the first matching evaluation <= 2 chunks per thread), endless sources have an element budget, mode Q compares the call sequence with the lazy std chain. non-trivial: a match event was observed and >= 2 workers executed closures (or mode Q); distinct: (configuration class, interleaving signature)",
    "C11": "seeded generation with ChunkSize::Exact(c): chunk sizes resolved by the runner and handed to each worker (hooks), bursts of next() on the instrumented iterator source, aligned-block ownership, block start order in mode S. non-trivial: >= 2 worker threads executed closures; distinct: (configuration class, interleaving signature)",
    "C12": "enumeration of every compiled pipeline x every insertion position x 12 setter values (single setters exhaustively; pairs exhaustively in the thorough tier, sampled in quick); params() and is_sequential() after every step compared with a two-field model. non-trivial: at least one setter applied; distinct: configuration class",
    "C13": "seeded generation over owning sources and all terminals; global drop table indexed by per-item serial + canary: after the result is dropped every item born must have been dropped exactly once. non-trivial: items were created by the pipeline and >= 2 workers executed closures (or mode Q); distinct: (configuration class, interleaving signature)",
    "C14": "fault enumeration: one or two injected panics (closure x element id / call number) per case over sources x shapes x terminals x configurations; observed: catch_unwind result, process survival, double/garbage drops in the drop table. non-trivial: an injected fault fired; distinct: (configuration class incl. fault, interleaving signature)",
    "C15": "grid over input length (0..33 dense + long samples) x NumThreads {Auto,1..6,8,16,64} x ChunkSize {Auto, Exact(c), Min(c)}, c incl. len-1, len, len+1, 64, 1000, 2^20; each case executed under the configuration and under num_threads(1), results compared (multiset for collect_x), panics reported. non-trivial: input of >= 1 element; distinct: configuration class",
    "C16": "enumeration of every compiled pipeline (all 32 type x transformation transitions, 6 source kinds) x 9 parameter-setting variants x all 24 terminals (four groups of six); closure-call and source-consumption counters read after every construction step; the parameters in effect at the terminal call compared with what the runner resolved for the terminal's run (RunBegin hook). non-trivial: pipeline with >= 1 transformation; distinct: configuration class",
}

ASSUME = {
    "common": [
        "the harness' reference model (std::iter adaptors over (id, val) tuples) is the specification of 'the sequential result'",
        "only executions that were actually run are covered: programs are chains of length <= 3 over map/filter/flat_map/filter_map on the harness Item type",
        "mode S controls interleavings at closure entries and runner hooks only; finer interleavings inside the dependencies are sampled by free-running stress (and Miri/TSan where used)",
    ],
}

# seconds per shard (plain stage)
TIME_LIMIT = {"quick": 55, "thorough": 200}

SANITIZER_PLAN = {
    # property -> tier -> list of stages
    "quick": {
        "C01": ["explore", "bigindex", "hugechunk", "probe"], "C02": ["explore", "probe"], "C03": ["explore", "hugechunk", "probe"],
        "C04": ["explore", "hugechunk", "probe"],
        "C05": ["explore", "hugechunk"], "C06": ["explore", "probe"],
        "C07": ["explore", "probe"], "C08": ["explore"], "C10": ["explore"], "C11": ["explore", "hugechunk"],
        "C09": ["probe"],
        "C13": ["explore", "probe", "miri"], "C14": ["explore", "miri"],
        "C16": ["probe"],
    },
    "thorough": {
        "C01": ["explore", "bigindex", "hugechunk", "probe", "release", "miri", "asan", "tsan"],
        "C02": ["explore", "bigindex", "probe", "release", "miri"],
        "C03": ["explore", "bigindex", "hugechunk", "probe", "release", "asan", "tsan"],
        "C04": ["explore", "bigindex", "hugechunk", "probe", "release"],
        "C05": ["explore", "hugechunk", "release", "tsan", "miri"],
        "C06": ["explore", "probe", "release", "miri", "asan"],
        "C07": ["explore", "probe", "release", "asan", "tsan"],
        "C13": ["explore", "probe", "release", "miri", "asan"],
        "C14": ["explore", "release", "miri", "asan"],
        "C08": ["explore"],
        "C09": ["probe"],
        "C10": ["explore"],
        "C11": ["explore", "hugechunk"],
        "C15": ["release"],
        "C16": ["probe"],
    },
}


TASKSET = shutil.which("taskset")


def log(msg):
    print(msg, flush=True)


# ------------------------------------------------------------------------------------------------------------
# building


class BuildLock:
    def __init__(self, harness):
        self.path = os.path.join(harness, ".build.lock")

    def __enter__(self):
        self.f = open(self.path, "w")
        fcntl.flock(self.f, fcntl.LOCK_EX)
        return self

    def __exit__(self, *a):
        fcntl.flock(self.f, fcntl.LOCK_UN)
        self.f.close()


def prepare_lock(harness, repo):
    src = os.path.join(repo, "Cargo.lock")
    dst = os.path.join(harness, "Cargo.lock")
    if os.path.exists(src):
        # the harness resolves the same dependency versions as the repository
        try:
            same = os.path.exists(dst + ".src") and open(dst + ".src", "rb").read() == open(src, "rb").read()
        except Exception:
            same = False
        if not same or not os.path.exists(dst):
            shutil.copy(src, dst)
            shutil.copy(src, dst + ".src")


def cargo(harness, args, env=None, timeout=3600):
    e = dict(ENV_BASE)
    if env:
        e.update(env)
    p = subprocess.run(["cargo"] + args, cwd=harness, env=e, stdout=subprocess.PIPE, stderr=subprocess.STDOUT,
                       text=True, timeout=timeout)
    return p.returncode, p.stdout


def build_plain(harness, repo, release=False):
    with BuildLock(harness):
        prepare_lock(harness, repo)
        t0 = time.time()
        args = ["build", "--offline", "-p", "vh"]
        if release:
            args.append("--release")
        rc, out = cargo(harness, args, env={"CARGO_TARGET_DIR": os.path.join(harness, "target")})
        if rc != 0:
            return False, "harness build failed:\n" + out[-4000:]
        return True, "built in %.1fs" % (time.time() - t0)


def bin_path(harness, release=False):
    return os.path.join(harness, "target", "release" if release else "debug", "vh")


def build_asan(harness, repo):
    with BuildLock(harness):
        prepare_lock(harness, repo)
        env = {
            "CARGO_TARGET_DIR": os.path.join(harness, "target-asan"),
            "RUSTFLAGS": "-Zsanitizer=address -Cforce-frame-pointers=yes",
            "CARGO_PROFILE_DEV_DEBUG": "1",
            "CARGO_PROFILE_DEV_OPT_LEVEL": "1",
        }
        rc, out = cargo(harness, ["+nightly", "build", "--offline", "-p", "vh", "--target", "x86_64-unknown-linux-gnu"], env=env)
        if rc != 0:
            return None, "ASan build failed:\n" + out[-3000:]
        return os.path.join(harness, "target-asan", "x86_64-unknown-linux-gnu", "debug", "vh"), "ok"


def build_tsan(harness, repo):
    with BuildLock(harness):
        prepare_lock(harness, repo)
        env = {
            "CARGO_TARGET_DIR": os.path.join(harness, "target-tsan"),
            "RUSTFLAGS": "-Zsanitizer=thread",
            "CARGO_PROFILE_DEV_DEBUG": "1",
            "CARGO_PROFILE_DEV_OPT_LEVEL": "1",
        }
        rc, out = cargo(harness, ["+nightly", "build", "--offline", "-Zbuild-std", "-p", "vh", "--target", "x86_64-unknown-linux-gnu"], env=env)
        if rc != 0:
            return None, "TSan build failed:\n" + out[-3000:]
        return os.path.join(harness, "target-tsan", "x86_64-unknown-linux-gnu", "debug", "vh"), "ok"


def build_miri(harness, repo):
    """builds the harness for the Miri interpreter and returns the command prefix that runs it"""
    with BuildLock(harness):
        prepare_lock(harness, repo)
        env = miri_env(harness, 0)
        rc, out = cargo(harness, ["+nightly", "miri", "run", "--offline", "-p", "vh", "--features", "small-tables", "--", "list-shapes"], env=env, timeout=3600)
        if rc != 0:
            return False, "Miri build failed:\n" + out[-3000:]
        return True, "ok"


def miri_env(harness, miri_seed):
    return {
        "CARGO_TARGET_DIR": os.path.join(harness, "target-miri"),
        "MIRIFLAGS": "-Zmiri-disable-isolation -Zmiri-num-cpus=8 -Zmiri-preemption-rate=0.03 -Zmiri-seed=%d" % miri_seed,
    }


# ------------------------------------------------------------------------------------------------------------
# running shards


def run_shards(cmds, envs, outs, watchdog_s, label):
    """cmds: list of argv; returns list of dict(report=..., rc=..., progress=..., log=..., timed_out=bool)"""
    procs = []
    for argv, env, out in zip(cmds, envs, outs):
        for f in (out, out + ".progress", out + ".log"):
            if os.path.exists(f):
                os.remove(f)
        e = dict(ENV_BASE)
        e.update(env or {})
        lf = open(out + ".log", "w")
        p = subprocess.Popen(argv, env=e, stdout=lf, stderr=subprocess.STDOUT, cwd=os.path.dirname(out),
                             start_new_session=True)
        procs.append((p, lf, out))
    deadline = time.time() + watchdog_s
    results = []
    for p, lf, out in procs:
        timed_out = False
        try:
            p.wait(timeout=max(1, deadline - time.time()))
        except subprocess.TimeoutExpired:
            timed_out = True
            try:
                os.killpg(p.pid, signal.SIGKILL)
            except Exception:
                p.kill()
            p.wait()
        lf.close()
        rep = None
        if os.path.exists(out):
            try:
                rep = json.load(open(out))
            except Exception as ex:  # noqa
                rep = None
        prog = None
        if os.path.exists(out + ".progress"):
            try:
                prog = open(out + ".progress").read().strip()
            except Exception:
                prog = None
        try:
            logtxt = read_log(out + ".log")
        except Exception:
            logtxt = ""
        results.append(dict(report=rep, rc=p.returncode, progress=prog, log=logtxt, timed_out=timed_out, out=out))
    return results


# ------------------------------------------------------------------------------------------------------------
# known findings


def load_known(root):
    known, fixed = [], []
    path = os.path.join(root, "KNOWN_FINDINGS.txt")
    if not os.path.exists(path):
        return known, fixed
    for line in open(path):
        line = line.strip()
        if not line or line.startswith("#"):
            continue
        m = re.match(r"known:\s+property=(\S+)\s+key=(\S+)\s+(.*)", line)
        if m:
            known.append(dict(prop=m.group(1), key=m.group(2), what=m.group(3)))
            continue
        m = re.match(r"fixed:\s+property=(\S+)\s+(\S+)\s+(.*)", line)
        if m:
            fixed.append(dict(prop=m.group(1), commit=m.group(2), what=m.group(3)))
    return known, fixed


# ------------------------------------------------------------------------------------------------------------
# the check


def write_replay(root, prop, rec):
    d = os.path.join(root, "replays", prop)
    os.makedirs(d, exist_ok=True)
    h = hashlib.sha1(json.dumps(rec, sort_keys=True).encode()).hexdigest()[:16]
    path = os.path.join(d, h + ".json")
    with open(path, "w") as f:
        json.dump(rec, f, indent=1, sort_keys=True)
    return path


def replay(path, harness, repo):
    rec = json.load(open(path))
    stage = rec.get("stage", "plain")
    if rec.get("key") == "bigindex":
        with BuildLock(harness):
            prepare_lock(harness, repo)
            rc, out = cargo(harness, ["build", "--offline", "-p", "vbig", "--release"], env={"CARGO_TARGET_DIR": os.path.join(harness, "target")})
        argv = [os.path.join(harness, "target", "release", "vbig"), rec["property"], str(rec.get("seed", 0)), "", "3"]
        log("replaying: " + " ".join(argv))
        return subprocess.run(argv, env=ENV_BASE).returncode
    if rec.get("key") == "hugechunk":
        with BuildLock(harness):
            prepare_lock(harness, repo)
            rc, out = cargo(harness, ["build", "--offline", "-p", "vbig", "--release"], env={"CARGO_TARGET_DIR": os.path.join(harness, "target")})
        argv = [os.path.join(harness, "target", "release", "vbig"), "hugechunk", rec["property"], str(rec.get("seed", 0)), ""]
        log("replaying: " + " ".join(argv))
        return subprocess.run(argv, env=ENV_BASE).returncode
    if rec.get("key") == "probe" or rec.get("stage") == "probe":
        pkg = "probe_" + rec["property"].lower()
        with BuildLock(harness):
            prepare_lock(harness, repo)
            rc, out = cargo(harness, ["build", "--offline", "-p", pkg], env={"CARGO_TARGET_DIR": os.path.join(harness, "target")})
        argv = [os.path.join(harness, "target", "debug", pkg), rec["property"], str(rec.get("seed", 0)), "", "6" if rec.get("tier") == "quick" else "40"]
        log("replaying: " + " ".join(argv))
        return subprocess.run(argv, env=ENV_BASE).returncode
    if stage != "plain":
        log("note: this violation was found under the %s build; replaying on the plain build (%s)" % (stage, rec.get("note", "")))
    ok, msg = build_plain(harness, repo)
    if not ok:
        log(msg)
        return 2
    argv = [bin_path(harness), "replay", "--prop", rec["property"], "--tier", rec.get("tier", "quick"),
            "--seed", str(rec.get("seed", 0)), "--idx", str(rec.get("idx", 0)), "--events"]
    if rec.get("small"):
        argv.append("--small")
    sc = rec.get("script") or ""
    if sc.startswith("explore:"):
        argv += ["--script", sc[len("explore:"):] or ","]
    log("replaying: " + " ".join(argv))
    p = subprocess.run(argv, env=ENV_BASE)
    return p.returncode


def check(prop, tier, seed, root, harness, repo, nproc):
    t_start = time.time()
    if prop not in LEVEL:
        log("unknown property %s" % prop)
        return 2
    work = os.path.join(root, "work", prop)
    shutil.rmtree(work, ignore_errors=True)
    os.makedirs(work, exist_ok=True)
    os.makedirs(os.path.join(root, "evidence"), exist_ok=True)
    evid_path = os.path.join(root, "evidence", prop + ".json")
    if os.path.exists(evid_path):
        os.remove(evid_path)

    ok, msg = build_plain(harness, repo)
    if not ok:
        log("BROKEN property=%s: %s" % (prop, msg))
        return 2
    log("[%s/%s seed=%d] harness %s" % (prop, tier, seed, msg))

    stages = []  # (name, results, small)
    # ---- plain stage
    tl = TIME_LIMIT[tier]
    cmds, envs, outs = [], [], []
    for i in range(nproc):
        out = os.path.join(work, "plain_%02d.json" % i)
        argv = [bin_path(harness), "run", "--prop", prop, "--tier", tier, "--seed", str(seed), "--shard", str(i),
                "--nshards", str(nproc), "--out", out, "--time-limit", str(tl)]
        # three shards run with a restricted CPU affinity: available_parallelism() is then 1, 2 or 3, which makes the
        # runner cap its workers below the requested number (single-worker "parallel" runs included)
        if TASKSET and nproc >= 8 and i >= nproc - 3:
            argv = [TASKSET, "-c", "0-%d" % (i - (nproc - 3))] + argv
        cmds.append(argv)
        envs.append({})
        outs.append(out)
    res = run_shards(cmds, envs, outs, tl + 180, "plain")
    stages.append(("plain", res, False))

    # ---- sanitizer stages
    for st in SANITIZER_PLAN.get(tier, {}).get(prop, []):
        r = run_sanitizer_stage(st, prop, tier, seed, root, harness, repo, nproc, work)
        if r is None:
            log("BROKEN property=%s: %s stage could not be built/run" % (prop, st))
            return 2
        stages.append((st, r, st == "miri"))

    return conclude(prop, tier, seed, root, stages, t_start, evid_path)


def run_sanitizer_stage(st, prop, tier, seed, root, harness, repo, nproc, work):
    cmds, envs, outs = [], [], []
    if st == "miri":
        ok, msg = build_miri(harness, repo)
        if not ok:
            log(msg)
            return None
        per = 60 if tier == "quick" else 150
        tl = 45 if tier == "quick" else 250
        for i in range(nproc):
            out = os.path.join(work, "miri_%02d.json" % i)
            cmds.append(["cargo", "+nightly", "miri", "run", "--offline", "-p", "vh", "--features", "small-tables", "--",
                         "run", "--prop", prop, "--tier", tier, "--seed", str(seed), "--shard", str(i), "--nshards", str(nproc),
                         "--out", out, "--small", "--max-cases", str(per * nproc), "--time-limit", str(tl)])
            e = miri_env(harness, seed * 64 + i)
            if prop == "C14":
                e["MIRIFLAGS"] += " -Zmiri-ignore-leaks"
            envs.append(e)
            outs.append(out)
        # cargo needs to run in the workspace
        return run_shards_cwd(cmds, envs, outs, tl + 240, harness)
    if st == "bigindex":
        return run_bigindex(prop, tier, seed, harness, repo, work)
    if st == "probe":
        return run_bigindex(prop, tier, seed, harness, repo, work, probe=True)
    if st == "hugechunk":
        return run_bigindex(prop, tier, seed, harness, repo, work, huge=True)
    if st == "explore":
        ok, msg = build_plain(harness, repo)
        if not ok:
            log(msg)
            return None
        tl = 20 if tier == "quick" else 150
        bound = 2 if tier == "quick" else 3
        ncfg = 6400 if tier == "quick" else 64000
        for i in range(nproc):
            out = os.path.join(work, "explore_%02d.json" % i)
            cmds.append([bin_path(harness), "run", "--prop", prop, "--tier", tier, "--seed", str(seed + 4000), "--shard", str(i),
                         "--nshards", str(nproc), "--out", out, "--time-limit", str(tl), "--explore", "--bound", str(bound),
                         "--max-runs", "3000" if tier == "quick" else "30000", "--max-cases", str(ncfg)])
            envs.append({})
            outs.append(out)
        return run_shards(cmds, envs, outs, tl + 180, "explore")
    if st == "release":
        ok, msg = build_plain(harness, repo, release=True)
        if not ok:
            log(msg)
            return None
        tl = 150
        for i in range(nproc):
            out = os.path.join(work, "release_%02d.json" % i)
            cmds.append([bin_path(harness, release=True), "run", "--prop", prop, "--tier", tier, "--seed", str(seed + 3000), "--shard", str(i),
                         "--nshards", str(nproc), "--out", out, "--time-limit", str(tl), "--only-mode", "F"])
            envs.append({})
            outs.append(out)
        return run_shards(cmds, envs, outs, tl + 240, "release")
    if st == "asan":
        b, msg = build_asan(harness, repo)
        if b is None:
            log(msg)
            return None
        tl = 120
        for i in range(nproc):
            out = os.path.join(work, "asan_%02d.json" % i)
            cmds.append([b, "run", "--prop", prop, "--tier", tier, "--seed", str(seed + 1000), "--shard", str(i), "--nshards", str(nproc),
                         "--out", out, "--max-cases", "40000", "--time-limit", str(tl)])
            opts = "halt_on_error=1:abort_on_error=1:detect_stack_use_after_return=0"
            opts += ":detect_leaks=0" if prop == "C14" else ":detect_leaks=1"
            envs.append({"ASAN_OPTIONS": opts, "LSAN_OPTIONS": "exitcode=23"})
            outs.append(out)
        return run_shards(cmds, envs, outs, tl + 240, "asan")
    if st == "tsan":
        b, msg = build_tsan(harness, repo)
        if b is None:
            log(msg)
            return None
        tl = 120
        for i in range(nproc):
            out = os.path.join(work, "tsan_%02d.json" % i)
            cmds.append([b, "run", "--prop", prop, "--tier", tier, "--seed", str(seed + 2000), "--shard", str(i), "--nshards", str(nproc),
                         "--out", out, "--max-cases", "20000", "--time-limit", str(tl), "--only-mode", "F", "--no-hook", "--cap-len", "400"])
            envs.append({"TSAN_OPTIONS": "halt_on_error=1:exitcode=66:second_deadlock_stack=1"})
            outs.append(out)
        return run_shards(cmds, envs, outs, tl + 480, "tsan")
    return None


def run_bigindex(prop, tier, seed, harness, repo, work, probe=False, huge=False):
    """bigindex: source positions beyond 2^32 (plain usize pipelines over 0..2^32+k, release build);
    probe: plain-type probes over the std collections the instrumented table does not have (dev build, one small
    binary per property)"""
    pkg = ("probe_" + prop.lower()) if probe else "vbig"
    with BuildLock(harness):
        prepare_lock(harness, repo)
        args = ["build", "--offline", "-p", pkg] + ([] if probe else ["--release"])
        rc, out = cargo(harness, args, env={"CARGO_TARGET_DIR": os.path.join(harness, "target")})
        if rc != 0:
            log("%s build failed:\n" % pkg + out[-2000:])
            return None
    name = "probe" if probe else ("hugechunk" if huge else "bigindex")
    outp = os.path.join(work, name + ".json")
    if probe:
        argv = [os.path.join(harness, "target", "debug", pkg), prop, str(seed), outp, "6" if tier == "quick" else "40"]
    elif huge:
        argv = [os.path.join(harness, "target", "release", "vbig"), "hugechunk", prop, str(seed), outp]
    else:
        argv = [os.path.join(harness, "target", "release", "vbig"), prop, str(seed), outp, "1" if tier == "quick" else "3"]
    res = run_shards([argv], [{}], [outp], 900, name)
    r = res[0]
    raw = r["report"]
    if raw is not None:
        cases = raw.get("cases", [])
        nev = raw.get("cases_count", len(cases))
        xk = ("plain_type_probe_runs(std maps/sets/heaps/lists/arrays/copied/cloned x chains x terminals)" if probe
              else ("runs_with_chunk_sizes_beyond_2^20_over_millions_of_elements" if huge else "pipelines_over_more_than_2^32_positions"))
        rep = dict(evaluations=nev, nontrivial=nev, multi_worker=0, events=0, closure_calls=0, inconclusive=0,
                   by_mode={"S": 0, "F": nev, "Q": 0},
                   extra=dict([(xk, nev)] + ([("thread_creation_fault_runs", raw.get("fault_runs", 0)),
                                              ("runs_in_which_pthread_create_was_made_to_fail", raw.get("fault_fired", 0)),
                                              ("fault_runs_that_propagated_a_panic", raw.get("fault_panic_propagated", 0)),
                                              ("fault_runs_that_returned_the_correct_result", raw.get("fault_correct_result", 0))]
                                             if probe and raw.get("fault_runs") else [])),
                   distinct=[hashlib.sha1(c.encode()).hexdigest()[:16] for c in cases], signatures=[], other_props={},
                   samples=[{"case": c, "n": raw.get("n")} for c in cases[:1]], planned=len(cases), timed_out=False,
                   violations=[dict(prop=prop, key=(re.match(r"\[key=([^\]]+)\]", m).group(1) if m.startswith("[key=") else name),
                                    msg=m, idx=0, seed=seed, tier=tier, small=False, case=m[:300], mode="F", picks="", script="", probe=name)
                               for m in raw.get("violations", [])])
        r["report"] = rep
    return res


def run_shards_cwd(cmds, envs, outs, watchdog_s, cwd):
    # like run_shards but with a fixed cwd (cargo miri must run inside the workspace)
    procs = []
    for argv, env, out in zip(cmds, envs, outs):
        for f in (out, out + ".progress", out + ".log"):
            if os.path.exists(f):
                os.remove(f)
        e = dict(ENV_BASE)
        e.update(env or {})
        lf = open(out + ".log", "w")
        p = subprocess.Popen(argv, env=e, stdout=lf, stderr=subprocess.STDOUT, cwd=cwd, start_new_session=True)
        procs.append((p, lf, out))
    deadline = time.time() + watchdog_s
    results = []
    for p, lf, out in procs:
        timed_out = False
        try:
            p.wait(timeout=max(1, deadline - time.time()))
        except subprocess.TimeoutExpired:
            timed_out = True
            try:
                os.killpg(p.pid, signal.SIGKILL)
            except Exception:
                p.kill()
            p.wait()
        lf.close()
        rep = None
        if os.path.exists(out):
            try:
                rep = json.load(open(out))
            except Exception:
                rep = None
        prog = None
        if os.path.exists(out + ".progress"):
            prog = open(out + ".progress").read().strip()
        logtxt = read_log(out + ".log")
        results.append(dict(report=rep, rc=p.returncode, progress=prog, log=logtxt, timed_out=timed_out, out=out))
    return results


SAN_PATTERNS = [
    (re.compile(r"ERROR: AddressSanitizer: (\S+)"), "asan"),
    (re.compile(r"ERROR: LeakSanitizer: (.*)"), "lsan"),
    (re.compile(r"WARNING: ThreadSanitizer: (.*?) \("), "tsan"),
    (re.compile(r"error: Undefined Behavior: (.*)"), "miri-ub"),
    (re.compile(r"error: memory leaked"), "miri-leak"),
    (re.compile(r"error: the evaluated program leaked memory"), "miri-leak"),
    (re.compile(r"error: (deadlock|the evaluated program deadlocked)"), "miri-deadlock"),
    (re.compile(r"error: abnormal termination: (.*)"), "miri-abort"),
]


def read_log(path, cap=4_000_000):
    try:
        with open(path, errors="replace") as f:
            t = f.read(cap)
        return t
    except Exception:
        return ""


def excerpt(logtxt, n=1800):
    """the part of a log around the first sanitizer/Miri error, else its tail"""
    for pat, _ in SAN_PATTERNS:
        m = pat.search(logtxt)
        if m:
            a = max(0, m.start() - 200)
            return logtxt[a:a + n]
    return logtxt[-n:]


def classify_log(logtxt):
    for pat, kind in SAN_PATTERNS:
        m = pat.search(logtxt)
        if m:
            what = m.group(1) if m.groups() else kind
            return kind, what.strip()[:160]
    return None, None


def conclude(prop, tier, seed, root, stages, t_start, evid_path):
    known, _fixed = load_known(root)
    known_keys = {(k["prop"], k["key"]): k for k in known}
    viol = []  # records
    broken = []
    cov = dict(evaluations=0, nontrivial=0, multi_worker=0, events=0, closure_calls=0, inconclusive=0,
               by_mode={"S": 0, "F": 0, "Q": 0}, extra={}, stages={})
    distinct = set()
    signatures = set()
    samples = []
    others = {}
    planned = 0
    for name, results, small in stages:
        sc = dict(processes=len(results), evaluations=0, reports=0, sanitizer_reports=0, timed_out_shards=0)
        for r in results:
            rep = r["report"]
            if rep is not None:
                sc["reports"] += 1
                sc["evaluations"] += rep["evaluations"]
                cov["evaluations"] += rep["evaluations"]
                cov["nontrivial"] += rep["nontrivial"]
                cov["multi_worker"] += rep["multi_worker"]
                cov["events"] += rep["events"]
                cov["closure_calls"] += rep["closure_calls"]
                cov["inconclusive"] += rep["inconclusive"]
                if name == "plain":
                    planned = rep.get("planned", 0)
                for m in "SFQ":
                    cov["by_mode"][m] += rep["by_mode"][m]
                for k, v in rep["extra"].items():
                    cov["extra"][k] = cov["extra"].get(k, 0) + v
                distinct.update(rep["distinct"])
                signatures.update(rep["signatures"])
                if len(samples) < 4:
                    for s in rep["samples"][:1]:
                        s = dict(s)
                        s["stage"] = name
                        samples.append(s)
                for k, v in rep["other_props"].items():
                    o = others.setdefault(k, dict(count=0, first=v["first"]))
                    o["count"] += v["count"]
                for v in rep["violations"]:
                    v = dict(v)
                    v["stage"] = name
                    viol.append(v)
                if rep.get("timed_out"):
                    sc["timed_out_shards"] += 1
            # process-level outcomes
            kind, what = classify_log(r["log"])
            if r["timed_out"]:
                if prop in ("C14", "C10", "C15") and r["progress"]:
                    viol.append(dict(prop=prop, key="hang", msg="no progress within the watchdog while executing: " + r["progress"][:300],
                                     idx=progress_idx(r["progress"]), seed=seed, tier=tier, small=small, case=r["progress"][:300], mode="?", picks="", stage=name))
                else:
                    broken.append("%s shard watchdog expired (inconclusive): %s" % (name, (r["progress"] or "")[:200]))
            elif rep is None and kind is None and r["rc"] in (-9, -15, -2, 137, 143):
                # killed from outside (OOM killer, operator, harness): decides nothing
                broken.append("%s shard was killed by signal %s (inconclusive) while executing: %s" % (name, r["rc"], (r["progress"] or "?")[:200]))
            elif rep is None:
                if kind is not None or (r["rc"] is not None and r["rc"] != 0):
                    sc["sanitizer_reports"] += 1 if kind else 0
                    desc = "%s: %s" % (kind, what) if kind else "process died (exit status %s)" % r["rc"]
                    viol.append(dict(prop=prop, key="process:" + (kind or "died"), msg="%s stage: %s while executing: %s" % (name, desc, (r["progress"] or "?")[:300]),
                                     idx=progress_idx(r["progress"]), seed=shard_seed(name, seed), tier=tier, small=small, case=(r["progress"] or "?")[:300], mode="?", picks="", stage=name,
                                     log_tail=excerpt(r["log"])))
                else:
                    broken.append("%s shard produced no report (rc=%s): %s" % (name, r["rc"], r["log"][-300:]))
            elif kind is not None:
                # a report exists but the sanitizer complained at exit (e.g. leak report)
                sc["sanitizer_reports"] += 1
                viol.append(dict(prop=prop, key="process:" + kind, msg="%s stage: %s: %s" % (name, kind, what), idx=0, seed=shard_seed(name, seed), tier=tier, small=small,
                                 case="(at process exit)", mode="?", picks="", stage=name, log_tail=excerpt(r["log"])))
        cov["stages"][name] = sc

    # known findings
    real, known_hit = [], {}
    for v in viol:
        k = (v["prop"], v["key"])
        if k in known_keys:
            known_hit.setdefault(k, 0)
            known_hit[k] += 1
        else:
            real.append(v)

    wall = time.time() - t_start
    n_distinct = len(distinct)
    coverage = dict(
        evaluations=cov["evaluations"],
        distinct_nontrivial=n_distinct,
        rule=RULES[prop],
        samples=samples,
        nontrivial_executions=cov["nontrivial"],
        executions_with_2plus_active_workers=cov["multi_worker"],
        distinct_interleaving_signatures=len(signatures),
        events_checked=cov["events"],
        closure_calls_checked=cov["closure_calls"],
        executions_by_mode=cov["by_mode"],
        inconclusive_executions=cov["inconclusive"],
        planned_cases=planned,
        property_specific=cov["extra"],
        stages=cov["stages"],
        known_findings_observed={"%s %s" % k: n for k, n in known_hit.items()},
        other_properties_flagged_on_these_cases={k: v["count"] for k, v in others.items()},
        exhaustive=(prop in ("C12", "C16") and (tier == "thorough" or prop == "C16") and not any(r.get("report") and r["report"].get("timed_out") for _, rs, _ in stages for r in rs)),
    )
    evidence = dict(
        property_id=prop,
        tier=tier,
        seed=seed,
        level=LEVEL[prop],
        coverage=coverage,
        assumptions=ASSUME["common"],
        wall_s=round(wall, 2),
        violations=len(real),
    )
    with open(evid_path, "w") as f:
        json.dump(evidence, f, indent=1)

    for (p, key), n in sorted(known_hit.items()):
        log("KNOWN-FINDING: property=%s %s [%s; observed %d times in this run]" % (p, known_keys[(p, key)]["what"], key, n))

    log("[%s/%s] %d executions (%d non-trivial, %d distinct; %d interleaving signatures; %d events) in %.1fs; stages: %s" % (
        prop, tier, cov["evaluations"], cov["nontrivial"], n_distinct, len(signatures), cov["events"], wall,
        ", ".join("%s=%d" % (k, v["evaluations"]) for k, v in cov["stages"].items())))

    if real:
        seen = set()
        for v in real:
            sig = (v["key"], v.get("stage"))
            if sig in seen and len(seen) >= 1 and len([1 for s in seen]) >= 8:
                continue
            if sig in seen:
                continue
            seen.add(sig)
            rec = dict(property=prop, key=v["key"], message=v["msg"], idx=v.get("idx", 0), seed=v.get("seed", seed), tier=v.get("tier", tier),
                       small=bool(v.get("small")), case=v.get("case"), mode=v.get("mode"), schedule_picks=v.get("picks"), script=v.get("script", ""), stage=v.get("stage", "plain"),
                       log_tail=v.get("log_tail", ""), replay_cmd="/verif/vcheck replay <this file>")
            path = write_replay(root, prop, rec)
            log("  %s [%s/%s] %s" % (prop, v.get("stage"), v["key"], v["msg"][:400]))
            log("VIOLATION property=%s replay=%s" % (prop, path))
        return 1
    if broken:
        for b in broken[:5]:
            log("BROKEN property=%s: %s" % (prop, b))
        return 2
    # a run that observed nothing decides nothing
    if cov["evaluations"] == 0 or n_distinct < 2:
        log("BROKEN property=%s: the run observed too little (%d executions, %d distinct non-trivial)" % (prop, cov["evaluations"], n_distinct))
        return 2
    if cov["inconclusive"] > cov["evaluations"] // 20:
        log("BROKEN property=%s: too many inconclusive executions (%d)" % (prop, cov["inconclusive"]))
        return 2
    return 0


def progress_idx(progress):
    try:
        return int((progress or "0").split()[0])
    except Exception:
        return 0


def shard_seed(stage, seed):
    return {"asan": seed + 1000, "tsan": seed + 2000, "release": seed + 3000, "explore": seed + 4000}.get(stage, seed)
